#!/usr/bin/env python3
r"""List the functions of deepali that no check's workload enters.

usage: tools/apireach.py [--tier quick] [--ids C01 ...] [--out reach/REACH.md]

Runs every registered check once with ``VMON_REACH_DIR`` set: each shard process then records (``vmon/monitor/reach.py``,
``sys.monitoring`` PY_START) the library functions it entered. The union over all checks is compared with the functions
and methods defined under ``src/deepali`` (parsed with ``ast``, nothing imported). The report lists, per module, the
public functions never entered - candidates for a widened workload, or code outside every property.
"""
from __future__ import annotations

import argparse
import ast
import glob
import json
import os
import subprocess
import sys
import tempfile

VERIF = os.path.dirname(os.path.dirname(os.path.abspath(__file__)))
ALL = [f"C{i:02d}" for i in range(1, 21)]


def defined(src):
    root = os.path.join(src, "deepali")
    out = {}
    for path in glob.glob(os.path.join(root, "**", "*.py"), recursive=True):
        rel = os.path.relpath(path, root)
        try:
            tree = ast.parse(open(path).read())
        except SyntaxError:
            continue

        def walk(node, prefix):
            for ch in ast.iter_child_nodes(node):
                if isinstance(ch, (ast.FunctionDef, ast.AsyncFunctionDef)):
                    q = f"{prefix}{ch.name}"
                    overload = any(getattr(d, "id", getattr(d, "attr", "")) == "overload" for d in ch.decorator_list)
                    body = [b for b in ch.body if not (isinstance(b, ast.Expr) and isinstance(getattr(b, "value", None), ast.Constant))]
                    stub = len(body) == 0 or all(isinstance(b, (ast.Pass, ast.Raise)) or (isinstance(b, ast.Expr) and isinstance(b.value, ast.Constant)) for b in body)
                    if not overload:
                        out[(rel, q)] = {"line": ch.lineno, "stub": stub}
                    walk(ch, q + ".<locals>.")
                elif isinstance(ch, ast.ClassDef):
                    walk(ch, f"{prefix}{ch.name}.")

        walk(tree, "")
    return out


def main():
    ap = argparse.ArgumentParser()
    ap.add_argument("--tier", default="quick")
    ap.add_argument("--ids", nargs="*", default=ALL)
    ap.add_argument("--out", default=os.path.join(VERIF, "reach", "REACH.md"))
    a = ap.parse_args()
    src = os.path.abspath(os.environ.get("VMON_REPO_SRC", "/repo/src"))
    per = {}
    with tempfile.TemporaryDirectory(prefix="vmon-reach-") as tmp:
        for pid in a.ids:
            d = os.path.join(tmp, pid)
            os.makedirs(d)
            env = dict(os.environ, PYTHONPATH=f"{VERIF}:{src}", VMON_REACH_DIR=d)
            p = subprocess.run(["/venv/bin/python", "-m", "vmon.run", pid, "--tier", a.tier, "--seed", "0", "--no-evidence"], cwd=VERIF, env=env, capture_output=True, text=True)
            seen = set()
            for f in glob.glob(os.path.join(d, "*.json")):
                seen |= {tuple(x) for x in json.load(open(f))}
            per[pid] = seen
            print(f"{pid}: rc={p.returncode} functions entered={len(seen)}", flush=True)
    allseen = set().union(*per.values()) if per else set()
    defs = defined(src)
    pub = {k: v for k, v in defs.items() if not v["stub"] and "<locals>" not in k[1] and not any(part.startswith("_") and not part.startswith("__") for part in k[1].split("."))}
    dunder = {k for k in pub if k[1].split(".")[-1].startswith("__")}
    pub_named = {k: v for k, v in pub.items() if k not in dunder}
    missed = sorted(k for k in pub_named if k not in allseen)
    os.makedirs(os.path.dirname(a.out), exist_ok=True)
    with open(a.out, "w") as f:
        f.write(f"# API reach of the registered checks ({a.tier} tier, seed 0)\n\n")
        f.write(f"Functions and methods defined under `src/deepali` (public names, no stubs / overloads): {len(pub_named)}; entered by at least one check: {len(pub_named) - len(missed)}; never entered: {len(missed)}.\n\n")
        f.write("| check | library functions entered |\n|---|---|\n")
        for pid in a.ids:
            f.write(f"| {pid} | {len(per[pid])} |\n")
        f.write("\n## Never entered\n\n")
        cur = None
        for rel, q in missed:
            if rel != cur:
                f.write(f"\n### {rel}\n")
                cur = rel
            f.write(f"- `{q}` (line {defs[(rel, q)]['line']})\n")
    json.dump({"entered": sorted([list(x) for x in allseen]), "missed": [list(x) for x in missed], "per_check": {k: len(v) for k, v in per.items()}}, open(a.out.replace(".md", ".json"), "w"), indent=0)
    print(f"public functions: {len(pub_named)}, never entered: {len(missed)} -> {a.out}")


if __name__ == "__main__":
    main()
