#!/usr/bin/env python3
r"""Re-run every filed seeded change against the current checks, in scratch worktrees of /repo's HEAD (parallel per property).

usage: tools/refresh.py [--jobs 5] [--only C01 C02 ...] [--tier quick]

Each property has its own scratch worktree /tmp/mut/wt_<Cxx> (created from /repo's HEAD if missing, reset to it otherwise).
A change is applied there, the checks named by the change's own property and by every check that caught it before run with
VMON_REPO_SRC pointing at the worktree, and the change is reverted. Results replace meta.json 'runs' entries of the same
(check, tier, seed) and are tagged via=worktree; /repo itself is never touched.
"""
from __future__ import annotations

import argparse
import concurrent.futures as cf
import glob
import json
import os
import re
import subprocess

VERIF = os.path.dirname(os.path.dirname(os.path.abspath(__file__)))
MUT = "/tmp/mut"


def sh(cmd, **kw):
    return subprocess.run(cmd, shell=True, capture_output=True, text=True, **kw)


def prop_job(pid, tier):
    head = sh("git -C /repo rev-parse HEAD").stdout.strip()
    wt = f"{MUT}/wt_{pid}"
    if not os.path.isdir(wt):
        os.makedirs(MUT, exist_ok=True)
        sh(f"git -C /repo worktree add --detach {wt} {head}")
    sh(f"git -C {wt} checkout -q -- . && git -C {wt} checkout -q --detach {head}")
    out = []
    for d in sorted(glob.glob(f"{VERIF}/seeded/{pid}-m*/"), key=lambda p: int(re.search(r"-m(\d+)", p).group(1))):
        meta = json.load(open(d + "meta.json"))
        ids = [pid] + sorted({c.split("/")[0] for c in meta.get("caught_by", [])} - {pid})
        r = sh(f"git -C {wt} apply {d}patch.diff")
        if r.returncode:
            out.append(f"{meta['id']} PATCH DOES NOT APPLY")
            continue
        try:
            env = dict(os.environ, PYTHONPATH=f"{VERIF}:{wt}/src", VMON_REPO_SRC=f"{wt}/src")
            for cid in ids:
                p = sh(f"cd {VERIF} && /venv/bin/python -m vmon.run {cid} --tier {tier} --seed 0 --no-evidence", env=env)
                o = p.stdout + p.stderr
                keys = sorted(set(re.findall(r"key=(\S+)", o)))
                nviol = len([ln for ln in o.splitlines() if ln.startswith("VIOLATION ")])
                meta["runs"][f"{cid}/{tier}/s0"] = {"exit": p.returncode, "violations": nviol, "keys": keys[:12], "via": "worktree"}
        finally:
            sh(f"git -C {wt} checkout -q -- .")
        meta["caught_by"] = sorted({k.split("/")[0] + "/" + k.split("/")[1] for k, v in meta["runs"].items() if v["exit"] == 1})
        json.dump(meta, open(d + "meta.json", "w"), indent=1)
        own = meta["runs"][f"{pid}/{tier}/s0"]["exit"]
        out.append(f"{meta['id']} own_rc={own} caught_by={meta['caught_by']}")
    return pid, out


if __name__ == "__main__":
    ap = argparse.ArgumentParser()
    ap.add_argument("--jobs", type=int, default=5)
    ap.add_argument("--tier", default="quick")
    ap.add_argument("--only", nargs="*")
    a = ap.parse_args()
    pids = a.only or [f"C{i:02d}" for i in range(1, 21)]
    with cf.ThreadPoolExecutor(a.jobs) as ex:
        for pid, lines in ex.map(lambda p: prop_job(p, a.tier), pids):
            for ln in lines:
                print(ln, flush=True)
