#!/usr/bin/env python3
r"""Run registered checks against /repo with a seeded change applied, then undo the change.

usage: tools/mutant.py <patch.diff> [--tier quick|thorough] [--seed N] [--ids C01 C06 ...] [--tests]

The patch is applied with ``git -C /repo apply``, the checks run exactly as registered in MANIFEST.json
(``--no-evidence``: evidence files always describe the unchanged tree), and the patch is reverted in a ``finally``.
Prints one line per check: exit code, verdict line, violation keys; and a final JSON summary.
"""

from __future__ import annotations

import argparse
import json
import os
import re
import subprocess
import sys

REPO = "/repo"
VERIF = os.path.dirname(os.path.dirname(os.path.abspath(__file__)))
ALL = [f"C{i:02d}" for i in range(1, 21)]


def sh(cmd, **kw):
    return subprocess.run(cmd, shell=True, capture_output=True, text=True, **kw)


def main():
    ap = argparse.ArgumentParser()
    ap.add_argument("patch")
    ap.add_argument("--tier", default="quick")
    ap.add_argument("--seed", default="0")
    ap.add_argument("--ids", nargs="*", default=ALL)
    ap.add_argument("--tests", action="store_true", help="also run the repository test suite with the change applied")
    args = ap.parse_args()
    patch = os.path.abspath(args.patch)
    if sh(f"git -C {REPO} status --porcelain --untracked-files=no").stdout.strip():
        sys.exit("refusing: /repo working tree is not clean")
    r = sh(f"git -C {REPO} apply {patch}")
    if r.returncode != 0:
        sys.exit(f"patch does not apply: {r.stderr}")
    summary = {"patch": patch, "tier": args.tier, "seed": args.seed, "results": {}}
    try:
        if args.tests:
            t = sh(f"cd {REPO} && /venv/bin/python -m pytest -q -p no:cacheprovider tests 2>&1 | tail -1")
            summary["tests"] = t.stdout.strip()
            print("tests:", summary["tests"])
        env = dict(os.environ, PYTHONPATH=f"{VERIF}:{REPO}/src")
        for pid in args.ids:
            p = sh(f"cd {VERIF} && /venv/bin/python -m vmon.run {pid} --tier {args.tier} --seed {args.seed} --no-evidence", env=env)
            out = p.stdout + p.stderr
            keys = sorted(set(re.findall(r"key=(\S+)", out)))
            verdict = next((ln for ln in out.splitlines() if ln.startswith(f"{pid} tier=")), "")
            nviol = len([ln for ln in out.splitlines() if ln.startswith("VIOLATION ")])
            summary["results"][pid] = {"rc": p.returncode, "violations": nviol, "keys": keys[:12]}
            print(f"{pid} rc={p.returncode} viol={nviol} {verdict[:120]}")
            for k in keys[:12]:
                print("     ", k)
    finally:
        sh(f"git -C {REPO} apply -R {patch}")
        left = sh(f"git -C {REPO} status --porcelain --untracked-files=no").stdout.strip()
        if left:
            print("WARNING: /repo not clean after revert:", left)
            sh(f"git -C {REPO} checkout -- .")
    summary["caught_by"] = [k for k, v in summary["results"].items() if v["rc"] == 1]
    print("SUMMARY", json.dumps(summary))


if __name__ == "__main__":
    main()
