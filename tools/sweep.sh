#!/bin/bash
# usage: tools/sweep.sh <tier> <seed> [ids...]   -- runs checks sequentially, prints one summary line per check.
# Under `vp run --with-repo` the snapshots of /verif and of /repo's HEAD ($VP_RUN_REPO) are used, so both
# trees stay free for other work (seeded changes are applied to /repo itself).
tier=$1; seed=$2; shift 2
ids=${@:-C01 C02 C03 C04 C05 C06 C07 C08 C09 C10 C11 C12 C13 C14 C15 C16 C17 C18 C19 C20}
here=$(cd "$(dirname "$0")/.." && pwd)
cd "$here"
repo=${VP_RUN_REPO:-/repo}
export VMON_REPO_SRC=$repo/src
echo "# sweep: verif=$here repo=$repo ($(git -C $repo log --format=%h -1 2>/dev/null))"
for id in $ids; do
  out=$(PYTHONPATH=$here:$repo/src /venv/bin/python -m vmon.run $id --tier $tier --seed $seed --no-evidence 2>&1)
  rc=$?
  echo "== $id rc=$rc $(echo "$out" | grep "^$id tier" | cut -c1-200)"
  echo "$out" | grep "largest error" | cut -c1-200
  if [ $rc -ne 0 ]; then echo "$out" | grep -o "key=[^ ]*" | sort | uniq -c | head -20; echo "$out" | grep -A1 "^VIOLATION" | cut -c1-800 | head -12; echo "$out" | grep -i "inconclusive\|missing\|Traceback" | head -10; fi
done
