#!/usr/bin/env python3
r"""Confirm a seeded change delivered by a sub-agent and file it under /verif/seeded/<id>-m<k>/.

usage: tools/seed.py confirm <Cxx> <k>        confirm in the scratch worktree /tmp/mut/wt_<Cxx> and copy the files
       tools/seed.py run <Cxx>-m<k> [--tier quick] [--ids ...]   apply to /repo, run checks, revert, record in meta.json

``confirm`` applies the patch to the scratch worktree only, runs the repository test suite there (must pass as on the
unchanged tree), runs the demonstration (must exit 1), reverts and runs the demonstration again (must exit 0).
"""

from __future__ import annotations

import argparse
import json
import os
import re
import shutil
import subprocess
import sys

VERIF = os.path.dirname(os.path.dirname(os.path.abspath(__file__)))
MUT = "/tmp/mut"


def sh(cmd, **kw):
    return subprocess.run(cmd, shell=True, capture_output=True, text=True, **kw)


def confirm(pid, k):
    wt = f"{MUT}/wt_{pid}"
    src = f"{MUT}/out/{pid}"
    patch, demo, note = f"{src}/m{k}.diff", f"{src}/m{k}_demo.py", f"{src}/m{k}.md"
    for f in (patch, demo):
        if not os.path.exists(f):
            sys.exit(f"missing {f}")
    if sh(f"git -C {wt} status --porcelain --untracked-files=no").stdout.strip():
        sh(f"git -C {wt} checkout -- .")
    env = dict(os.environ, PYTHONPATH=f"{wt}/src", OMP_NUM_THREADS="4")
    r = sh(f"git -C {wt} apply {patch}")
    if r.returncode:
        sys.exit(f"patch does not apply: {r.stderr}")
    try:
        t = sh(f"cd {wt} && /venv/bin/python -m pytest -q -p no:cacheprovider tests 2>&1 | tail -1", env=env)
        tests = t.stdout.strip()
        d1 = sh(f"cd /tmp && /venv/bin/python {demo}", env=env)
        diffstat = sh(f"git -C {wt} diff --stat | tail -1").stdout.strip()
    finally:
        sh(f"git -C {wt} checkout -- .")
    d0 = sh(f"cd /tmp && /venv/bin/python {demo}", env=env)
    ok = ("88 passed" in tests) and d1.returncode == 1 and d0.returncode == 0
    print(f"{pid}-m{k}: tests='{tests}' demo_changed={d1.returncode} demo_clean={d0.returncode} -> {'CONFIRMED' if ok else 'REJECTED'}")
    if not ok:
        print(d1.stdout[-800:], d1.stderr[-800:], d0.stdout[-400:], d0.stderr[-400:])
        return False
    dst = f"{VERIF}/seeded/{pid}-m{k}"
    os.makedirs(dst, exist_ok=True)
    shutil.copy(patch, f"{dst}/patch.diff")
    shutil.copy(demo, f"{dst}/demo.py")
    if os.path.exists(note):
        shutil.copy(note, f"{dst}/note.md")
    files = sorted(set(re.findall(r"^\+\+\+ b/(\S+)", open(patch).read(), flags=re.M)))
    meta = {
        "id": f"{pid}-m{k}",
        "property": pid,
        "origin": "fresh sub-agent given only the property text and a scratch worktree",
        "files": files,
        "diffstat": diffstat,
        "summary": (open(note).read().strip().splitlines() or [""])[0][:300] if os.path.exists(note) else "",
        "confirmed": {"tests_with_change": tests, "demo_exit_with_change": d1.returncode, "demo_exit_unchanged": d0.returncode, "demo_output_tail": d1.stdout.strip().splitlines()[-6:]},
        "runs": {},
    }
    json.dump(meta, open(f"{dst}/meta.json", "w"), indent=1)
    return True


def run(name, tier, ids, seed):
    dst = f"{VERIF}/seeded/{name}"
    meta = json.load(open(f"{dst}/meta.json"))
    ids = ids or [meta["property"]]
    p = sh(f"{VERIF}/tools/mutant.py {dst}/patch.diff --tier {tier} --seed {seed} --ids {' '.join(ids)}")
    print(p.stdout[-3000:], p.stderr[-1500:])
    m = re.search(r"^SUMMARY (.*)$", p.stdout, flags=re.M)
    if not m:
        sys.exit("no summary")
    summ = json.loads(m.group(1))
    for pid, res in summ["results"].items():
        meta["runs"][f"{pid}/{tier}/s{seed}"] = {"exit": res["rc"], "violations": res["violations"], "keys": res["keys"]}
    caught = sorted({k.split("/")[0] + "/" + k.split("/")[1] for k, v in meta["runs"].items() if v["exit"] == 1})
    meta["caught_by"] = caught
    json.dump(meta, open(f"{dst}/meta.json", "w"), indent=1)


if __name__ == "__main__":
    ap = argparse.ArgumentParser()
    ap.add_argument("cmd", choices=["confirm", "run"])
    ap.add_argument("a")
    ap.add_argument("b", nargs="?")
    ap.add_argument("--tier", default="quick")
    ap.add_argument("--seed", default="0")
    ap.add_argument("--ids", nargs="*")
    a = ap.parse_args()
    if a.cmd == "confirm":
        sys.exit(0 if confirm(a.a, int(a.b)) else 1)
    run(a.a, a.tier, a.ids, a.seed)
