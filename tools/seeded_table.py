#!/usr/bin/env python3
r"""Print the markdown table of seeded changes (from seeded/*/meta.json) used in DESIGN.md."""
import glob
import json
import os

here = os.path.dirname(os.path.dirname(os.path.abspath(__file__)))
print("| id | file(s) | what the change does | caught by | first result / strengthening |")
print("|---|---|---|---|---|")
for f in sorted(glob.glob(f"{here}/seeded/*/meta.json")):
    m = json.load(open(f))
    runs = m.get("runs", {})
    caught = []
    keys = []
    for k in sorted(runs):
        pid, tier, _ = k.split("/")
        if runs[k]["exit"] == 1:
            caught.append(f"{pid} {tier}")
            keys = keys or runs[k]["keys"][:2]
    missed = [k for k in sorted(runs) if runs[k]["exit"] != 1]
    summary = m.get("summary", "").lstrip("# ").replace("|", "/")[:140]
    files = ", ".join(os.path.basename(x) for x in m.get("files", []))
    first = m.get("first_result", "caught at first run")
    if "strengthening" in m:
        first += "; " + m["strengthening"]
    print(f"| {m['id']} | {files} | {summary} | {', '.join(caught) or 'NOT CAUGHT'} ({', '.join(keys)}) | {first} |")
