#!/usr/bin/env python3
r"""Regenerate /verif/MANIFEST.json from the check modules that exist (keeps the manifest valid at all times)."""
import importlib
import json
import os
import sys

HERE = os.path.dirname(os.path.dirname(os.path.abspath(__file__)))
sys.path.insert(0, HERE)

PY = "PYTHONPATH=/verif:/repo/src /venv/bin/python"
ALL = [f"C{i:02d}" for i in range(1, 21)]
NOT_BUILT_REASON = "check not built yet in this round (runtime monitoring applies; see DESIGN.md section 3)"


def main():
    checks, na = [], []
    for pid in ALL:
        path = os.path.join(HERE, "vmon", "checks", pid.lower() + ".py")
        if not os.path.exists(path):
            na.append({"property_id": pid, "reason": NOT_BUILT_REASON})
            continue
        mod = importlib.import_module(f"vmon.checks.{pid.lower()}")
        checks.append(
            {
                "property_id": pid,
                "quick_cmd": f"cd /verif && {PY} -m vmon.run {pid} --tier quick",
                "thorough_cmd": f"cd /verif && {PY} -m vmon.run {pid} --tier thorough",
                "evidence_file": f"/verif/evidence/{pid}.json",
                "replay_cmd_template": f"cd /verif && {PY} -m vmon.replay {{path}}",
                "engine": "vmon",
                "level_claimed": {
                    "category": "exploration",
                    "text": getattr(mod, "LEVEL_TEXT", None)
                    or (
                        "Runtime monitoring: the real deepali code is executed on generated workloads while an independent "
                        "float64 oracle / contract monitor judges every observed execution. Held on the executions observed "
                        "(counts, buckets and anchor line coverage in the evidence file), not a proof."
                    ),
                    "design_ref": f"DESIGN.md section 3, {pid}",
                },
                "level_note": getattr(mod, "LEVEL_NOTE", None) or "; ".join(getattr(mod, "ASSUMPTIONS", [])),
                "technique": getattr(mod, "TECHNIQUE", "runtime monitoring: generated workload + independent oracle/contract monitors on the real functions"),
            }
        )
    manifest = {
        "version": 1,
        "setup_cmd": f"cd /verif && {PY} -m compileall -q vmon && {PY} -m vmon.selftest",
        "hooks": {
            "guard": "BIOMEDIA_DEEPALI_VERIF",
            "enable": "no in-source hooks: all monitors are attached from outside by vmon.monitor.* (wrapping attributes of the imported deepali modules, sys.monitoring on anchored code objects); the runner sets BIOMEDIA_DEEPALI_VERIF=1 for forward compatibility",
            "baseline_off_cmd": "cd /repo && /venv/bin/python -m pytest -ra -q -p no:cacheprovider --timeout=900 --continue-on-collection-errors",
            "source_commits": [],
            "add_only": True,
        },
        "engines": [
            {
                "name": "vmon",
                "path": "/verif/vmon",
                "serves_properties": [c["property_id"] for c in checks],
                "kind_free_text": "runtime monitoring framework: seeded workload generators, independent float64 oracles, contract/mutation monitors attached to the real deepali functions, sys.monitoring line coverage of anchored functions, sharded subprocess runner with watchdogs and three-valued verdicts",
            }
        ],
        "checks": checks,
        "notes": "Every check rebuilds nothing: deepali is pure Python and is imported from /repo/src (asserted at start-up). Known findings: /verif/known_findings.json. VERIF_SEED selects the workload seed.",
        "not_applicable": na,
    }
    with open(os.path.join(HERE, "MANIFEST.json"), "w") as f:
        json.dump(manifest, f, indent=1)
        f.write("\n")
    print(f"MANIFEST.json: {len(checks)} checks, {len(na)} not claimed")


if __name__ == "__main__":
    main()
