#!/usr/bin/env python3
r"""Regenerate /verif/MANIFEST.json from the check modules that exist (keeps the manifest valid at all times)."""
import importlib
import json
import os
import sys

HERE = os.path.dirname(os.path.dirname(os.path.abspath(__file__)))
sys.path.insert(0, HERE)

PY = "PYTHONPATH=/verif:/repo/src /venv/bin/python"
ALL = [f"C{i:02d}" for i in range(1, 21)]
NOT_BUILT_REASON = "check not built yet in this round (runtime monitoring applies; see DESIGN.md section 3)"


TECHNIQUES = {
    "C01": "runtime monitoring: postcondition oracle (float64 reference coordinate maps written from the documented anchors) evaluated on every observed call of the real Grid/Cube maps over generated and derived grids; sys.monitoring line coverage of the anchor functions",
    "C02": "runtime monitoring, differential: every observed index<->world map and header conversion of the real code is compared with SimpleITK executing the same geometry",
    "C03": "runtime monitoring: contract wrappers (pre-state snapshot + postconditions) installed on the real Grid / Cube derivation methods, the copying accessors and clone / deepcopy observe direct calls, random chains of up to three derivations and copies taken mid-chain; the grid a result is derived from must come out unchanged",
    "C04": "runtime monitoring: conservation oracle (linear ramp image + field-of-view tracker) over observed operation chains on real images, batches and flow fields",
    "C05": "runtime monitoring, differential: observed resampling results of every sampling API against SimpleITK.Resample on the same headers, incl. module reuse histories",
    "C06": "runtime monitoring: agreement monitor between all evaluation routes of one transform object (point map, disp, flow, tensor, point-set and image transformers) through the coordinate oracle",
    "C07": "runtime monitoring: history monitor composing each real transform with its inverse before and after parameter changes, inverse read with and without the call hook, repeated evaluation (statelessness) and operand-form pairs of the matrix composition",
    "C08": "runtime monitoring: reference-model monitor (numpy linear algebra) on observed compositions and rotation conversions, incl. transform getters/setters",
    "C09": "runtime monitoring of operation histories: after every step of a random history the real object is compared with a fresh transform built from its current state (stale-state oracle); exact re-gridding oracle at new sample positions",
    "C10": "runtime monitoring: representation-independence monitor - the same world-space field observed through all four vector representations, grids and flow operations",
    "C11": "runtime monitoring: closed-form oracle (matrix exponential / repeated squaring in float64) on observed expv / ExpFlow / SVF buffers",
    "C12": "runtime monitoring: analytic-derivative oracle on affine / quadratic fields and spline coefficients for every scheme, spacing form and key subset",
    "C13": "runtime monitoring: algebraic-law monitors (identity, exact affine composition, bilinearity, antisymmetry, call-history independence) and BCH series oracle on observed results",
    "C14": "runtime monitoring: textbook cubic B-spline reference model (basis, weights, evaluation, subdivision) against both evaluation algorithms and the FFD transforms",
    "C15": "runtime monitoring: mutation monitor (tensor version counters, byte digests, identity / attribute signatures) around every public functional name (signature-driven option sweeps), every accessor and the repository's own tests (pytest plugin)",
    "C16": "runtime monitoring: axiom monitors (minimum, range, symmetry, invariance, mask and reduction relations) on observed values of every image loss and module",
    "C17": "runtime monitoring: analytic values, null spaces, homogeneity and unit conversions of every regulariser observed on generated fields",
    "C18": "runtime monitoring: round-trip and cross-reader monitor (deepali <-> SimpleITK in both directions, header text parser, read sequences in one process) on real files in a temporary directory",
    "C19": "runtime monitoring: provenance-carrier monitor (item i carries 2^i) over single operations and random torch programs on typed batches; copy / deepcopy / pickle / collate / conversion constructors, results written with out=, grid-change histories of single images",
    "C20": "runtime monitoring: autograd vs central finite differences on the real operations; a torch function mode observes float32 casts to choose the step size, a rounding recorder attributes vanishing gradients to call sites",
}

def main():
    checks, na = [], []
    for pid in ALL:
        path = os.path.join(HERE, "vmon", "checks", pid.lower() + ".py")
        if not os.path.exists(path):
            na.append({"property_id": pid, "reason": NOT_BUILT_REASON})
            continue
        mod = importlib.import_module(f"vmon.checks.{pid.lower()}")
        checks.append(
            {
                "property_id": pid,
                "quick_cmd": f"cd /verif && {PY} -m vmon.run {pid} --tier quick",
                "thorough_cmd": f"cd /verif && {PY} -m vmon.run {pid} --tier thorough",
                "evidence_file": f"/verif/evidence/{pid}.json",
                "replay_cmd_template": f"cd /verif && {PY} -m vmon.replay {{path}}",
                "engine": "vmon",
                "level_claimed": {
                    "category": "exploration",
                    "text": getattr(mod, "LEVEL_TEXT", None)
                    or (
                        "Runtime monitoring: the real deepali code is executed on generated workloads while an independent "
                        "float64 oracle / contract monitor judges every observed execution. Held on the executions observed "
                        "(counts, buckets and anchor line coverage in the evidence file), not a proof."
                    ),
                    "design_ref": f"DESIGN.md section 3, {pid}",
                },
                "level_note": getattr(mod, "LEVEL_NOTE", None) or "; ".join(getattr(mod, "ASSUMPTIONS", [])),
                "technique": getattr(mod, "TECHNIQUE", TECHNIQUES.get(pid, "runtime monitoring: generated workload + independent oracle/contract monitors on the real functions")),
            }
        )
    manifest = {
        "version": 1,
        "setup_cmd": f"cd /verif && {PY} -m compileall -q vmon && {PY} -m vmon.selftest",
        "hooks": {
            "guard": "BIOMEDIA_DEEPALI_VERIF",
            "enable": "no in-source hooks: all monitors are attached from outside by vmon.monitor.* (wrapping attributes of the imported deepali modules, sys.monitoring on anchored code objects); the runner sets BIOMEDIA_DEEPALI_VERIF=1 for forward compatibility",
            "baseline_off_cmd": "cd /repo && /venv/bin/python -m pytest -ra -q -p no:cacheprovider --timeout=900 --continue-on-collection-errors",
            "source_commits": [],
            "add_only": True,
        },
        "engines": [
            {
                "name": "vmon",
                "path": "/verif/vmon",
                "serves_properties": [c["property_id"] for c in checks],
                "kind_free_text": "runtime monitoring framework: seeded workload generators, independent float64 oracles, contract/mutation monitors attached to the real deepali functions, sys.monitoring line coverage of anchored functions, sharded subprocess runner with watchdogs and three-valued verdicts",
            }
        ],
        "checks": checks,
        "notes": "Every check rebuilds nothing: deepali is pure Python and is imported from /repo/src (asserted at start-up). Known findings: /verif/known_findings.json. VERIF_SEED selects the workload seed.",
        "not_applicable": na,
    }
    with open(os.path.join(HERE, "MANIFEST.json"), "w") as f:
        json.dump(manifest, f, indent=1)
        f.write("\n")
    print(f"MANIFEST.json: {len(checks)} checks, {len(na)} not claimed")


if __name__ == "__main__":
    main()
