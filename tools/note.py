#!/usr/bin/env python3
r"""tools/note.py <Cxx-mK> <text>: record what was strengthened for a seeded change (meta.json 'strengthening')."""
import json, sys
f = f"{__import__('os').path.dirname(__import__('os').path.dirname(__import__('os').path.abspath(__file__)))}/seeded/{sys.argv[1]}/meta.json"
d = json.load(open(f)); d["strengthening"] = sys.argv[2]; json.dump(d, open(f, "w"), indent=1)
