r"""Core of the runtime-monitoring framework: per-shard context, verdict bookkeeping.

A *check module* (``vmon.checks.cXX``) provides

    PROPERTY   = "C01"
    RULE       = "<how cases are generated and what makes one non-trivial>"
    ASSUMPTIONS = [...]
    def plan(tier, seed) -> list of work items (JSON-serialisable lists, item[0] is the kind)
    def run_item(ctx, item) -> None           (executes the real code under the monitors)
    def mandatory(tier) -> list of bucket names that must have been observed (else inconclusive)
    ANCHORS    = [(module, qualname), ...]    (functions whose executed lines are recorded)

Everything a work item observes is recorded on the :class:`Ctx`.

"""

from __future__ import annotations

import contextlib
import hashlib
import json
import math
import os
import traceback
from collections import Counter
from typing import Any, Dict, List, Optional, Sequence

import numpy as np

MAX_STORED_PER_KEY = 3
MAX_SAMPLES = 4


def derive_seed(*parts: Any) -> int:
    h = hashlib.sha256("/".join(str(p) for p in parts).encode()).digest()
    return int.from_bytes(h[:8], "little")


def jsonable(x: Any, depth: int = 0) -> Any:
    r"""Best-effort conversion of witness data to JSON."""
    try:
        import torch
    except Exception:  # pragma: no cover
        torch = None
    if depth > 6:
        return repr(x)[:200]
    if x is None or isinstance(x, (bool, int, str)):
        return x
    if isinstance(x, float):
        if math.isnan(x) or math.isinf(x):
            return repr(x)
        return x
    if isinstance(x, (np.integer,)):
        return int(x)
    if isinstance(x, (np.floating,)):
        return jsonable(float(x))
    if isinstance(x, np.ndarray):
        if x.size > 64:
            return {"shape": list(x.shape), "head": jsonable(x.reshape(-1)[:16].tolist(), depth + 1)}
        return jsonable(x.tolist(), depth + 1)
    if torch is not None and isinstance(x, torch.Tensor):
        try:
            return jsonable(x.detach().cpu().double().numpy(), depth + 1)
        except Exception:
            return repr(x)[:200]
    if isinstance(x, dict):
        return {str(k): jsonable(v, depth + 1) for k, v in x.items()}
    if isinstance(x, (list, tuple, set, frozenset)):
        return [jsonable(v, depth + 1) for v in x]
    return repr(x)[:300]


class Ctx:
    r"""Observation context of one shard (or one replay)."""

    def __init__(self, prop: str, tier: str, seed: int):
        self.prop = prop
        self.tier = tier
        self.seed = seed
        self.item: Optional[list] = None
        self.evaluations = 0
        self.items_run = 0
        self.buckets: Counter = Counter()
        self.counters: Counter = Counter()
        self.nontrivial: set = set()
        self.samples: List[Any] = []
        self.margins: Dict[str, float] = {}
        self.margin_at: Dict[str, Any] = {}
        self.exceptions: Counter = Counter()
        self.violations: List[dict] = []
        self.violation_counts: Counter = Counter()
        self.inconclusive: List[str] = []
        self.notes: Dict[str, Any] = {}

    # ------------------------------------------------------------------ rng
    def rng(self, *extra: Any) -> np.random.Generator:
        return np.random.default_rng(derive_seed(self.prop, self.seed, json.dumps(self.item), *extra))

    # ------------------------------------------------------------ bookkeeping
    def bucket(self, name: str, n: int = 1) -> None:
        self.buckets[name] += n

    def count(self, name: str, n: int = 1) -> None:
        self.counters[name] += n

    def nontriv(self, *desc: Any) -> None:
        h = hashlib.sha1(json.dumps(jsonable(desc), sort_keys=True).encode()).hexdigest()[:16]
        self.nontrivial.add(h)

    def sample(self, obj: Any) -> None:
        if len(self.samples) < MAX_SAMPLES:
            self.samples.append(jsonable(obj))

    def note_max(self, name: str, value: float) -> None:
        if value > self.notes.get(name, -math.inf):
            self.notes[name] = value

    # -------------------------------------------------------------- verdicts
    def violation(self, name: str, key: Optional[str] = None, **info: Any) -> None:
        key = key or name
        self.violation_counts[key] += 1
        if self.violation_counts[key] <= MAX_STORED_PER_KEY:
            self.violations.append(
                {
                    "property": self.prop,
                    "check": name,
                    "key": key,
                    "tier": self.tier,
                    "seed": self.seed,
                    "item": self.item,
                    "info": jsonable(info),
                }
            )

    def true(self, name: str, cond: Any, key: Optional[str] = None, **info: Any) -> bool:
        self.evaluations += 1
        self.counters["eval/" + name] += 1
        ok = bool(cond)
        if not ok:
            self.violation(name, key, **info)
        return ok

    def close(
        self,
        name: str,
        got: Any,
        ref: Any,
        tol: Any,
        key: Optional[str] = None,
        **info: Any,
    ) -> bool:
        r"""Assert ``|got - ref| <= tol`` element-wise; record the margin ``max(err/tol)``."""
        self.evaluations += 1
        self.counters["eval/" + name] += 1
        g = to_np(got)
        r = to_np(ref)
        t = to_np(tol)
        if g.shape != r.shape:
            try:
                g, r = np.broadcast_arrays(g, r)
            except ValueError:
                self.violation(name, key, reason="shape", got_shape=list(g.shape), ref_shape=list(r.shape), **info)
                return False
        if g.size == 0:
            return True
        err = np.abs(g - r)
        bad = ~np.isfinite(g) & np.isfinite(r)
        with np.errstate(divide="ignore", invalid="ignore"):
            ratio = np.where(t > 0, err / t, np.where(err > 0, np.inf, 0.0))
        ratio = np.where(bad, np.inf, ratio)
        ratio = np.where(np.isnan(ratio), np.inf, ratio)
        m = float(ratio.max())
        if m > self.margins.get(name, -1.0):
            self.margins[name] = m
            self.margin_at[name] = {"item": self.item, "info": jsonable(info)}
        if m > 1.0:
            i = int(np.argmax(ratio))
            idx = np.unravel_index(i, ratio.shape) if ratio.ndim else ()
            self.violation(
                name,
                key,
                max_err=float(err.reshape(-1)[i]) if np.isfinite(err.reshape(-1)[i]) else repr(err.reshape(-1)[i]),
                tol=float(np.broadcast_to(t, ratio.shape).reshape(-1)[i]),
                at=[int(j) for j in idx],
                got=float(g.reshape(-1)[i]) if np.isfinite(g.reshape(-1)[i]) else repr(g.reshape(-1)[i]),
                ref=float(r.reshape(-1)[i]),
                **info,
            )
            return False
        return True

    @contextlib.contextmanager
    def guard(self, site: str, key: Optional[str] = None, allow: Sequence[type] = (), **info: Any):
        r"""Run a block of observed library calls; an exception on a valid input is an observation.

        ``allow`` lists exception types that are documented rejections at this site (they are counted
        in the exceptions table, but are not violations).
        """
        try:
            yield
        except Exception as e:  # noqa: BLE001
            tname = type(e).__name__
            self.exceptions[f"{site}:{tname}"] += 1
            if isinstance(e, tuple(allow)):
                return
            tb = traceback.extract_tb(e.__traceback__)
            where = ""
            for fr in reversed(tb):
                if "/deepali/" in fr.filename:
                    where = f"{os.path.basename(fr.filename)}:{fr.name}"
                    break
            self.evaluations += 1
            self.violation(
                "exception/" + site,
                key or f"exc/{site}/{tname}",
                exc=f"{tname}: {str(e)[:300]}",
                where=where,
                tb=[f"{os.path.basename(f.filename)}:{f.lineno}:{f.name}" for f in tb[-6:]],
                **info,
            )

    # ----------------------------------------------------------------- output
    def dump(self) -> dict:
        return {
            "evaluations": self.evaluations,
            "items_run": self.items_run,
            "buckets": dict(self.buckets),
            "counters": dict(self.counters),
            "nontrivial": sorted(self.nontrivial),
            "samples": self.samples,
            "margins": self.margins,
            "margin_at": self.margin_at,
            "exceptions": dict(self.exceptions),
            "violations": self.violations,
            "violation_counts": dict(self.violation_counts),
            "inconclusive": self.inconclusive,
            "notes": jsonable(self.notes),
        }


def to_np(x: Any) -> np.ndarray:
    try:
        import torch

        if isinstance(x, torch.Tensor):
            return x.detach().cpu().to(torch.float64).numpy()
    except ImportError:  # pragma: no cover
        pass
    return np.asarray(x, dtype=np.float64)


def eps_of(dtype: Any) -> float:
    import torch

    if dtype in (torch.float64, np.float64, "float64"):
        return 2.220446049250313e-16
    if dtype in (torch.float16,):
        return 9.765625e-4
    return 1.1920928955078125e-07


def setup_runtime() -> str:
    r"""Import the working tree of deepali and make execution deterministic. Returns the source root."""
    import sys
    import warnings

    warnings.filterwarnings("ignore")
    src = os.environ.get("VMON_REPO_SRC", "/repo/src")
    src = os.path.abspath(src)
    if src in sys.path:
        sys.path.remove(src)
    sys.path.insert(0, src)
    import torch

    torch.set_num_threads(1)
    try:
        torch.set_num_interop_threads(1)
    except RuntimeError:
        pass
    torch.use_deterministic_algorithms(True, warn_only=True)
    import deepali.core as _core

    f = os.path.abspath(_core.__file__)
    if not f.startswith(src + os.sep):
        raise RuntimeError(f"deepali imported from {f}, expected under {src}")
    return src
