r"""Call specifications for every tensor-taking public name of ``deepali.core.functional`` and
``deepali.losses.functional`` (C15 mutation monitor, C20 gradient catalogue).

Each spec is ``lambda E: (args, kwargs)`` where ``E`` is an :class:`Env` of prepared tensors; argument forms are
chosen to provoke aliasing between result/intermediates and the arguments (already-float contiguous input,
non-contiguous and expanded views, steps=0, levels=0, zero margins, identical grids, integer dtypes, padding=c).
"""

from __future__ import annotations

import math
from typing import Any, Callable, Dict, List, Tuple

import numpy as np


class Env:
    def __init__(self, rng: np.random.Generator, D: int):
        import torch
        from deepali.core.grid import Grid

        self.D = D
        self.shape = (7, 8) if D == 2 else (5, 6, 7)
        self.N, self.C = 2, 2
        sh = self.shape
        f32 = torch.float32

        def t(a, dtype=f32):
            return torch.tensor(np.asarray(a), dtype=dtype)

        self.img = t(rng.uniform(0.1, 1.0, size=(self.N, self.C) + sh))
        self.img_b = t(rng.uniform(0.1, 1.0, size=(self.N, self.C) + sh))
        self.img1 = t(rng.uniform(0.1, 1.0, size=(self.N, 1) + sh))
        self.img1_b = t(rng.uniform(0.1, 1.0, size=(self.N, 1) + sh))
        base = t(rng.uniform(0.1, 1.0, size=(self.N, self.C) + sh[::-1]))
        self.img_nc = base.permute(0, 1, *range(base.ndim - 1, 1, -1))  # non-contiguous view with shape (N, C) + sh
        self.img_exp = t(rng.uniform(0.1, 1.0, size=(1, self.C) + sh)).expand(self.N, -1, *sh)  # expanded view
        self.img64 = t(rng.uniform(0.1, 1.0, size=(self.N, self.C) + sh), torch.float64)
        self.img_int = t(rng.integers(0, 200, size=(self.N, self.C) + sh), torch.int16)
        self.img_u8 = t(rng.integers(0, 200, size=(self.N, 1) + sh), torch.uint8)
        self.lab = t(rng.integers(0, 3, size=(self.N, 1) + sh), torch.int64)
        self.onehot = torch.nn.functional.one_hot(self.lab[:, 0], 3).movedim(-1, 1).float().contiguous()
        self.prob = torch.softmax(t(rng.normal(size=(self.N, 3) + sh)), dim=1)
        self.logits = t(rng.normal(size=(self.N, 1) + sh))
        self.binary = t(rng.integers(0, 2, size=(self.N, 1) + sh).astype(np.float32))
        self.mask = t(rng.integers(0, 2, size=(self.N, 1) + sh).astype(np.float32))
        self.mask[..., 0] = 1
        self.bmask = self.mask > 0
        self.mask_b = t(rng.integers(0, 2, size=(self.N, 1) + sh).astype(np.float32))  # drawn last-but-independent of mask
        self.mask_b[..., 1] = 1
        self.flow = t(rng.normal(size=(self.N, D) + sh) * 0.05)
        self.flow_b = t(rng.normal(size=(self.N, D) + sh) * 0.05)
        self.flow64 = t(rng.normal(size=(self.N, D) + sh) * 0.05, torch.float64)
        self.grid = Grid(shape=sh)
        self.grid_b = Grid(shape=sh, spacing=tuple([0.5] * D), center=tuple([0.3] * D))
        self.coords = self.grid.coords().unsqueeze(0).repeat(self.N, *([1] * (D + 1))).contiguous()
        self.coords1 = self.grid.coords().unsqueeze(0).contiguous()
        self.pts = t(rng.uniform(-0.9, 0.9, size=(self.N, 11, D)))
        self.pts_b = t(rng.uniform(-0.9, 0.9, size=(self.N, 9, D)))
        self.pts64 = t(rng.uniform(-0.9, 0.9, size=(self.N, 11, D)), torch.float64)
        self.mat = t(np.tile(np.eye(D, D + 1), (self.N, 1, 1)) + rng.normal(size=(self.N, D, D + 1)) * 0.05)
        self.sq = t(np.tile(np.eye(D), (self.N, 1, 1)) + rng.normal(size=(self.N, D, D)) * 0.05)
        self.tr = t(rng.normal(size=(self.N, D, 1)) * 0.1)
        self.vec = t(rng.normal(size=(D,)))
        self.kernel = t([0.25, 0.5, 0.25])
        self.kernel_nd = t(np.ones((3,) * D) / 3**D)
        self.angles = t(rng.uniform(-1, 1, size=(self.N, 3)))
        self.angle2 = t(rng.uniform(-1, 1, size=(self.N, 1)))
        q = rng.normal(size=(self.N, 4))
        self.quat = t(q / np.linalg.norm(q, axis=1, keepdims=True))
        self.aa = t(rng.normal(size=(self.N, 3)) * 0.5)
        from .oracle import linalg as L

        self.rot = t(np.stack([L.quat(x) for x in q]))
        self.rot2 = t(np.stack([L.rot2(a) for a in rng.uniform(-1, 1, size=self.N)]))
        self.affine3 = t(np.stack([L.quat(x) for x in q]) @ np.diag([1.1, 0.9, 1.2]))
        self.scales = t(np.exp(rng.uniform(-0.2, 0.2, size=(self.N, D))))
        self.vecs3 = t(rng.normal(size=(self.N, 3)))
        self.vecs3_b = t(rng.normal(size=(self.N, 3)))
        self.coef = t(rng.normal(size=(self.N, D) + tuple(n + 3 for n in sh)) * 0.05)
        self.idx = t(rng.integers(0, int(np.prod(sh)), size=(5,)), torch.int64)
        self.sel = t(rng.integers(0, sh[-1], size=(self.N, 3)), torch.int64)
        self.weights = t(rng.uniform(0.1, 1, size=(self.N, 12)))
        self.mean = t(rng.normal(size=(self.N, 4)))
        self.logvar = t(rng.normal(size=(self.N, 4)))
        self.loss = t(rng.uniform(0, 1, size=(self.N, 1) + sh))
        self.smooth = t(rng.uniform(0.1, 1.0, size=(self.N, 1) + sh))


Spec = Callable[[Env], Tuple[tuple, dict]]


def core_specs() -> Dict[str, List[Spec]]:
    import torch
    from deepali.core.enum import PaddingMode

    S: Dict[str, List[Spec]] = {}

    def add(name, *specs):
        S.setdefault(name, []).extend(specs)

    add("abspow", lambda E: ((E.img, 1), {}), lambda E: ((E.img, 2), {}))
    add("as_tensor", lambda E: ((E.img,), {}), lambda E: ((E.img,), dict(dtype=torch.float32)))
    add("as_float_tensor", lambda E: ((E.img,), {}), lambda E: ((E.img_int,), {}))
    add("as_one_hot_tensor", lambda E: ((E.lab, 3), {}), lambda E: ((E.lab, 3), dict(ignore_index=2)), lambda E: ((E.onehot, 3), {}))
    add("atanh", lambda E: ((E.img * 0.5,), {}), lambda E: ((E.flow,), {}))
    add("atleast_1d", lambda E: ((E.img,), {}), lambda E: ((E.vec[0],), {}))
    add("batched_index_select", lambda E: ((E.img, E.img.ndim - 1, E.sel), {}))
    add("max_difference", lambda E: ((E.img, E.img_b), {}), lambda E: ((E.img, E.img), {}))
    add("move_dim", lambda E: ((E.img, 1, -1), {}), lambda E: ((E.img, 1, 1), {}))
    add("round_decimals", lambda E: ((E.img, 2), {}), lambda E: ((E.img,), {}), lambda E: ((E.img, 0), {}))
    add("threshold", lambda E: ((E.img, 0.3, 0.8), {}), lambda E: ((E.img, None), {}))
    add("unravel_coords", lambda E: ((E.idx, E.shape[::-1]), {}))
    add("unravel_index", lambda E: ((E.idx, E.shape), {}))
    add("multinomial", lambda E: ((E.weights, 4), {}), lambda E: ((E.weights, 20), dict(replacement=True)))
    add("affine_flow", lambda E: ((E.mat, E.grid), {}), lambda E: ((E.tr, E.coords1), {}), lambda E: ((E.sq, E.coords), dict(channels_last=True)))
    add("affine_rotation_matrix", lambda E: ((E.affine3,), {}))
    add("affine_transform_points", lambda E: ((E.mat, E.pts), {}), lambda E: ((E.tr, E.pts), {}))
    add("affine_transform_vectors", lambda E: ((E.mat, E.pts), {}), lambda E: ((E.tr, E.pts), {}))
    add("angle_axis_to_rotation_matrix", lambda E: ((E.aa,), {}))
    add("angle_axis_to_quaternion", lambda E: ((E.aa,), {}))
    add("apply_affine_transform", lambda E: ((E.mat, E.pts), {}), lambda E: ((E.tr, E.pts), dict(vectors=True)), lambda E: ((E.sq, E.pts64), {}))
    add("as_homogeneous_matrix", lambda E: ((E.mat,), {}), lambda E: ((E.sq,), {}), lambda E: ((E.tr,), {}), lambda E: ((E.vec,), {}))
    add("as_homogeneous_tensor", lambda E: ((E.mat,), {}), lambda E: ((E.vec,), {}))
    add("euler_rotation_matrix", lambda E: ((E.angles,), {}), lambda E: ((E.angles,), dict(order="XYZ")), lambda E: ((E.angles,), dict(order="YXY")), lambda E: ((E.angle2,), {}))
    add("euler_rotation_angles", lambda E: ((E.rot,), {}), lambda E: ((E.rot,), dict(order="XZX")), lambda E: ((E.rot2,), {}))
    add("hmm", lambda E: ((E.mat, E.mat), {}), lambda E: ((E.tr, E.mat), {}), lambda E: ((E.mat, E.tr), {}), lambda E: ((E.sq, E.tr), {}), lambda E: ((E.tr, E.tr), {}))
    add("homogeneous_matmul", lambda E: ((E.mat, E.mat), {}), lambda E: ((E.tr, E.mat, E.sq), {}), lambda E: ((E.mat,), {}), lambda E: ((E.mat, E.tr), {}), lambda E: ((E.tr, E.mat), {}))
    add("homogeneous_matrix", lambda E: ((E.mat,), {}), lambda E: ((E.mat,), dict(offset=E.vec)), lambda E: ((E.sq,), dict(offset=E.vec)), lambda E: ((E.tr,), {}))
    add("homogeneous_transform", lambda E: ((E.mat, E.pts), {}), lambda E: ((E.tr, E.pts), {}), lambda E: ((E.tr, E.pts), dict(vectors=True)), lambda E: ((E.mat, E.coords), {}), lambda E: ((E.sq[:1], E.pts64), {}))
    add("normalize_quaternion", lambda E: ((E.quat,), {}))
    add("quaternion_to_angle_axis", lambda E: ((E.quat,), {}))
    add("quaternion_to_rotation_matrix", lambda E: ((E.quat,), {}))
    add("quaternion_log_to_exp", lambda E: ((E.aa,), {}))
    add("quaternion_exp_to_log", lambda E: ((E.quat,), {}))
    add("rotation_matrix", lambda E: ((E.angles,), {}))
    add("rotation_matrix_to_angle_axis", lambda E: ((E.rot,), {}))
    add("rotation_matrix_to_quaternion", lambda E: ((E.rot,), {}))
    add("scaling_transform", lambda E: ((E.scales,), {}), lambda E: ((E.scales,), dict(homogeneous=True)))
    add("shear_matrix", lambda E: ((E.angles if E.D == 3 else E.angle2,), {}))
    add("tensordot", lambda E: ((E.sq, E.sq), dict(dims=1)), lambda E: ((E.mat, E.mat), dict(dims=([0, 1], [0, 1]))))
    add("translation", lambda E: ((E.tr,), {}), lambda E: ((E.tr[..., 0],), {}), lambda E: ((E.tr,), dict(homogeneous=True)))
    add("vectordot", lambda E: ((E.pts, E.pts), {}), lambda E: ((E.pts, E.pts, E.pts), {}))
    add("vector_rotation", lambda E: ((E.vecs3, E.vecs3_b), {}))
    add("avg_pool", lambda E: ((E.img, 2), {}), lambda E: ((E.img_nc, 1), {}))
    add("bounding_box", lambda E: ((E.pts,), {}))
    add("center_crop", lambda E: ((E.img, 4), {}), lambda E: ((E.img, 100), {}), lambda E: ((E.img, E.shape[::-1]), {}))
    add("center_pad", lambda E: ((E.img, 12), {}), lambda E: ((E.img, 2), {}), lambda E: ((E.img, 12), dict(mode="replicate")))
    add("closest_point_distances", lambda E: ((E.pts, E.pts_b), {}))
    add("closest_point_indices", lambda E: ((E.pts, E.pts_b), {}))
    add("compose_flows", lambda E: ((E.flow, E.flow_b), {}), lambda E: ((E.flow, E.flow), dict(align_corners=False)))
    add("compose_svfs", lambda E: ((E.flow, E.flow_b), {}), lambda E: ((E.flow, E.flow_b), dict(bch_terms=0)), lambda E: ((E.flow, E.flow), dict(bch_terms=5)))
    add("conv", lambda E: ((E.img, E.kernel), {}), lambda E: ((E.img, E.kernel), dict(padding=PaddingMode.REPLICATE)), lambda E: ((E.img_int, E.kernel), {}), lambda E: ((E.img, E.kernel_nd), {}), lambda E: ((E.img, [None] * E.D), {}), lambda E: ((E.img, E.kernel), dict(padding=PaddingMode.NONE)))
    add("conv1d", lambda E: ((E.img, E.kernel), {}), lambda E: ((E.img_int, E.kernel), dict(dim=2)), lambda E: ((E.img, E.kernel), dict(padding="replicate")))
    add("crop", lambda E: ((E.img,), dict(margin=1)), lambda E: ((E.img,), dict(margin=0)), lambda E: ((E.img,), dict(num=[0] * (2 * E.D))), lambda E: ((E.img,), dict(margin=-1, mode="replicate")))
    add("curl", lambda E: ((E.flow,), {}), lambda E: ((E.flow,), dict(mode="sobel")))
    add("denormalize_flow", lambda E: ((E.flow,), {}), lambda E: ((E.flow,), dict(side_length=1)), lambda E: ((E.flow.movedim(1, -1),), dict(size=torch.Size(E.shape[::-1]), channels_last=True)))
    add("denormalize_grid", lambda E: ((E.coords,), {}), lambda E: ((E.coords,), dict(side_length=1, align_corners=False)))
    add("distance_matrix", lambda E: ((E.pts, E.pts_b), {}))
    add("divergence", lambda E: ((E.flow,), {}), lambda E: ((E.flow,), dict(mode="central", spacing=0.5)))
    add("divergence_free_flow", lambda E: ((E.img1 if E.D == 2 else E.flow,), {}), lambda E: ((E.img1 if E.D == 2 else E.img,), {}))
    add("dot_batch", lambda E: ((E.img, E.img_b), {}), lambda E: ((E.img, E.img_b, E.mask), {}))
    add("dot_channels", lambda E: ((E.img, E.img_b), {}), lambda E: ((E.img, E.img, E.mask), {}))
    add("downsample", lambda E: ((E.img, 1), {}), lambda E: ((E.img, 0), {}), lambda E: ((E.img, 1), dict(sigma=0)), lambda E: ((E.img_nc, 1), dict(align_corners=False)))
    add("evaluate_cubic_bspline", lambda E: ((E.coef,), dict(stride=1)), lambda E: ((E.coef,), dict(stride=2, shape=E.shape)), lambda E: ((E.coef,), dict(stride=2, transpose=True)))
    add("expv", lambda E: ((E.flow,), {}), lambda E: ((E.flow,), dict(steps=0)), lambda E: ((E.flow,), dict(steps=0, scale=0.5)), lambda E: ((E.flow64,), dict(steps=3, align_corners=False, inverse=True)))
    add("flatten_channels", lambda E: ((E.img,), {}))
    add("finite_differences", lambda E: ((E.img, 0), {}), lambda E: ((E.img, 1), dict(mode="central")), lambda E: ((E.img, 0), dict(order=0)), lambda E: ((E.img_int, 0), dict(mode="forward")))
    add("flow_derivatives", lambda E: ((E.flow,), {}), lambda E: ((E.flow,), dict(which=["du/dx", "du/dxy", "du/dyx"])), lambda E: ((E.flow,), dict(order=2, mode="sobel")))
    add("gaussian_pyramid", lambda E: ((E.img, 2), {}), lambda E: ((E.img, 1), {}))
    add("image_slice", lambda E: ((E.img,), {}))
    add("pad", lambda E: ((E.img,), dict(margin=1)), lambda E: ((E.img,), dict(margin=0)), lambda E: ((E.img,), dict(num=[0] * (2 * E.D))), lambda E: ((E.img,), dict(margin=1, mode="replicate")))
    add("fill_border", lambda E: ((E.img, 1), {}), lambda E: ((E.img, 0), {}), lambda E: ((E.img_nc, 1), dict(value=3.0)))
    add("grid_resample", lambda E: ((E.img, 1.0, 0.5), {}), lambda E: ((E.img, 1.0, 1.0), {}), lambda E: ((E.img, 1.0, 2.0), dict(padding=1.5)))
    add("grid_reshape", lambda E: ((E.img, tuple(n + 2 for n in E.shape)), {}), lambda E: ((E.img, E.shape), {}))
    add("grid_resize", lambda E: ((E.img, tuple(n + 2 for n in E.shape[::-1])), {}), lambda E: ((E.img, E.shape[::-1]), {}), lambda E: ((E.img, E.shape[::-1]), dict(align_corners=False)))
    add("grid_sample", lambda E: ((E.img, E.coords), {}), lambda E: ((E.img, E.coords), dict(padding=1.5)), lambda E: ((E.img, E.coords1), dict(padding="border")), lambda E: ((E.img_int, E.coords), dict(padding=2)), lambda E: ((E.img64, E.coords), dict(padding=1.5)), lambda E: ((E.img, E.coords), dict(mode="nearest", padding=1.5)), lambda E: ((E.img_nc, E.coords), dict(padding=0.5)))
    add("grid_sample_mask", lambda E: ((E.mask, E.coords), {}), lambda E: ((E.bmask, E.coords), {}))
    add("jacobian_det", lambda E: ((E.flow,), {}), lambda E: ((E.flow,), dict(add_identity=False)), lambda E: ((E.flow,), dict(mode="sobel")))
    add("jacobian_dict", lambda E: ((E.flow,), {}), lambda E: ((E.flow,), dict(add_identity=True)))
    add("jacobian_matrix", lambda E: ((E.flow,), {}), lambda E: ((E.flow,), dict(add_identity=True)))
    add("lie_bracket", lambda E: ((E.flow, E.flow_b), {}), lambda E: ((E.flow, E.flow), {}))
    add("logv", lambda E: ((E.flow,), dict(num_iters=1)))
    add("max_pool", lambda E: ((E.img, 2), {}), lambda E: ((E.img, 1), {}))
    add("min_pool", lambda E: ((E.img, 2), {}), lambda E: ((E.img, 1), {}))
    add("normalize_flow", lambda E: ((E.flow,), {}), lambda E: ((E.flow,), dict(side_length=1)), lambda E: ((E.flow64,), dict(align_corners=False)))
    add("normalize_grid", lambda E: ((E.coords,), {}), lambda E: ((E.coords,), dict(side_length=1)))
    add("normalize_image", lambda E: ((E.img,), {}), lambda E: ((E.img,), dict(mode="center")), lambda E: ((E.img,), dict(mode="zscore")), lambda E: ((E.img,), dict(min=0.0, max=1.0)), lambda E: ((E.img_int,), {}))
    add("polyline_directions", lambda E: ((E.pts,), {}), lambda E: ((E.pts,), dict(normalize=True)))
    add("polyline_tangents", lambda E: ((E.pts,), {}), lambda E: ((E.pts,), dict(normalize=True)))
    add("rand_sample", lambda E: ((E.img, 5), {}), lambda E: (([E.img, E.img_b], 5), dict(mask=E.mask)), lambda E: ((E.img, 50), dict(replacement=True)))
    add("rescale", lambda E: ((E.img,), {}), lambda E: ((E.img, 0, 1), {}), lambda E: ((E.img, 0, 255), dict(dtype=torch.uint8)), lambda E: ((E.img_int,), {}), lambda E: ((E.img,), dict(data_min=0, data_max=1)))
    add("sample_flow", lambda E: ((E.flow, E.pts), {}), lambda E: ((E.flow, E.coords), {}), lambda E: ((E.flow[:1], E.pts), dict(padding=0.5)))
    add("sample_image", lambda E: ((E.img, E.pts), {}), lambda E: ((E.img, E.coords), dict(padding=1.5)), lambda E: ((E.img_int, E.pts), dict(padding=1)))
    add("spatial_derivatives", lambda E: ((E.img,), {}), lambda E: ((E.img,), dict(mode="gaussian")), lambda E: ((E.img,), dict(mode="bspline")), lambda E: ((E.img,), dict(order=2, mode="sobel", sigma=0.5)), lambda E: ((E.img,), dict(order=0)), lambda E: ((E.img_int,), {}))
    add("subdivide_cubic_bspline", lambda E: ((E.coef,), {}), lambda E: ((E.coef,), dict(dims=[0])))
    add("transform_grid", lambda E: ((E.mat, E.coords), {}), lambda E: ((E.flow, E.coords), {}), lambda E: ((E.tr, E.coords1), {}))
    add("transform_points", lambda E: ((E.mat, E.pts), {}), lambda E: ((E.flow, E.pts), {}), lambda E: ((E.tr, E.pts), {}))
    add("upsample", lambda E: ((E.img, 1), {}), lambda E: ((E.img, 0), {}), lambda E: ((E.img, 1), dict(sigma=0.7)))
    add("warp_grid", lambda E: ((E.flow, E.coords), {}), lambda E: ((E.flow[:1], E.coords), {}))
    add("warp_image", lambda E: ((E.img, E.coords), {}), lambda E: ((E.img, E.coords), dict(flow=E.flow.movedim(1, -1))), lambda E: ((E.img, E.coords1), dict(flow=E.flow.movedim(1, -1), padding=1.5)))
    add("warp_points", lambda E: ((E.flow, E.pts), {}), lambda E: ((E.flow, E.coords), {}))
    return S


# names of deepali.core.functional that take no tensor (or Grid with tensors) argument
NO_TENSOR_ARGS = {
    "euler_rotation_order", "identity_transform", "bspline_interpolation_weights", "circle_image", "cshape_image",
    "cubic_bspline_control_point_grid_size", "empty_image", "grid_image", "ones_image", "zeros_flow", "zeros_image",
}


def grid_specs() -> Dict[str, List[Spec]]:
    r"""Functions whose only tensor-bearing argument is a Grid."""
    S: Dict[str, List[Spec]] = {}
    S["cubic_bspline_control_point_grid"] = [lambda E: ((E.grid_b, 2), {})]
    S["circle_image"] = [lambda E: ((E.grid_b,), {})]
    S["cshape_image"] = [lambda E: ((E.grid_b,), {})]
    S["grid_image"] = [lambda E: ((E.grid_b,), {})]
    S["zeros_image"] = [lambda E: ((E.grid_b,), {})]
    S["zeros_flow"] = [lambda E: ((E.grid_b,), {})]
    return S


def loss_specs() -> Dict[str, List[Spec]]:
    S: Dict[str, List[Spec]] = {}

    def add(name, *specs):
        S.setdefault(name, []).extend(specs)

    add("balanced_binary_cross_entropy_with_logits", lambda E: ((E.logits, E.binary), {}), lambda E: ((E.logits, E.binary), dict(weight=E.mask)))
    add("binary_cross_entropy_with_logits", lambda E: ((E.logits, E.binary), {}))
    add("label_smoothing", lambda E: ((E.lab,), dict(num_classes=3)), lambda E: ((E.onehot,), {}), lambda E: ((E.lab,), dict(num_classes=3, ignore_index=2)))
    for n in ("dice_score", "dice_loss"):
        add(n, lambda E: ((E.prob, E.onehot), {}), lambda E: ((E.prob, E.onehot), dict(weight=E.mask)), lambda E: ((E.binary, E.binary), dict(reduction="none")))
    add("kld_loss", lambda E: ((E.mean, E.logvar), {}))
    for n in ("lcc_loss",):
        add(n, lambda E: ((E.img, E.img_b), dict(kernel_size=3)), lambda E: ((E.img, E.img_b), dict(kernel_size=3, mask=E.mask)), lambda E: ((E.img, E.img), dict(kernel_size=3, reduction="none")))
    add("wlcc_loss", lambda E: ((E.img, E.img_b), dict(kernel_size=3)), lambda E: ((E.img, E.img_b), dict(kernel_size=3, mask=E.mask, source_mask=E.mask, target_mask=E.mask)))
    for n in ("mae_loss", "mse_loss", "ssd_loss"):
        add(n, lambda E: ((E.img, E.img_b), {}), lambda E: ((E.img, E.img_b), dict(mask=E.mask)), lambda E: ((E.img, E.img), dict(norm=2.0, reduction="none")), lambda E: ((E.img_nc, E.img_exp), dict(mask=E.bmask)))
    add("ncc_loss", lambda E: ((E.img, E.img_b), {}), lambda E: ((E.img, E.img), dict(reduction="none")))
    add("mi_loss", lambda E: ((E.img1, E.img1_b), dict(num_bins=8)), lambda E: ((E.img1, E.img1_b), dict(num_bins=8, mask=E.mask)), lambda E: ((E.img1, E.img1), dict(num_bins=8, normalized=True)))
    for n in ("grad_loss", "bending_loss", "bending_energy", "be_loss", "curvature_loss", "diffusion_loss", "divergence_loss", "total_variation_loss", "tv_loss"):
        add(n, lambda E: ((E.flow,), {}), lambda E: ((E.flow,), dict(mode="central", reduction="none")), lambda E: ((E.flow64,), dict(spacing=0.5)))
    add("elasticity_loss", lambda E: ((E.flow,), {}), lambda E: ((E.flow,), dict(first_parameter=1.0, second_parameter=0.5, reduction="none")))
    for n in ("bspline_bending_loss", "bspline_bending_energy", "bspline_be_loss"):
        add(n, lambda E: ((E.coef,), {}), lambda E: ((E.coef,), dict(stride=2, reduction="none")))
    add("focal_loss_with_logits", lambda E: ((E.logits, E.binary), {}), lambda E: ((E.logits, E.binary), dict(weight=E.mask)))
    for n in ("tversky_index", "tversky_loss"):
        add(n, lambda E: ((E.prob, E.onehot), {}), lambda E: ((E.prob, E.onehot), dict(weight=E.mask, alpha=0.3, beta=0.7)), lambda E: ((E.binary, E.binary), dict(reduction="none")))
    for n in ("tversky_index_with_logits", "tversky_loss_with_logits"):
        add(n, lambda E: ((E.logits, E.binary), {}), lambda E: ((E.logits, E.binary), dict(weight=E.mask)))
    add("inverse_consistency_loss", lambda E: ((E.flow, -E.flow), {}), lambda E: ((E.flow, E.flow_b), dict(grid=E.grid, margin=1, units="voxel")), lambda E: ((E.flow, E.flow_b), dict(mask=E.mask, units="world", grid=E.grid_b)))
    add("masked_loss", lambda E: ((E.loss,), {}), lambda E: ((E.loss, E.mask), {}), lambda E: ((E.loss, E.bmask), dict(name="x")))
    add("reduce_loss", lambda E: ((E.loss,), {}), lambda E: ((E.loss, "sum"), {}), lambda E: ((E.loss, "mean", E.mask), {}), lambda E: ((E.loss, "none"), {}))
    return S
