r"""CLI: ``python -m vmon.replay <replay.json>`` — re-runs the work item that produced a violation."""

from __future__ import annotations

import json
import os
import sys


def main(argv=None) -> int:
    argv = sys.argv[1:] if argv is None else argv
    path = argv[0]
    with open(path) as f:
        v = json.load(f)
    here = os.path.dirname(os.path.dirname(os.path.abspath(__file__)))
    if here not in sys.path:
        sys.path.insert(0, here)
    from vmon.shard import run_items

    out = run_items(v["property"], v["tier"], int(v["seed"]), [v["item"]])
    same = [w for w in out["violations"] if w["key"] == v["key"]]
    other = [w for w in out["violations"] if w["key"] != v["key"]]
    for w in same[:3]:
        print(f"REPRODUCED property={v['property']} key={w['key']} check={w['check']} info={json.dumps(w['info'])[:1500]}")
    for w in other[:3]:
        print(f"(other violation in the same item: key={w['key']})")
    if same:
        return 1
    print(f"not reproduced: item {v['item']} ran {out['evaluations']} evaluations without violating key {v['key']}")
    return 0


if __name__ == "__main__":
    sys.exit(main())
