r"""Closed forms for vector fields (float64 numpy): invariant affine velocity fields and their exponentials,
analytic derivatives of affine / quadratic fields, smooth band-limited fields vanishing at the boundary."""

from __future__ import annotations

from typing import Optional, Sequence, Tuple

import numpy as np


def norm_coords(shape: Sequence[int], align_corners: bool) -> np.ndarray:
    r"""Normalised sample coordinates, array (..., X, D) with components in (x, ...) order."""
    axes = []
    for n in shape:
        i = np.arange(n, dtype=np.float64)
        if n == 1:
            axes.append(np.zeros(1))
        elif align_corners:
            axes.append(2 * i / (n - 1) - 1)
        else:
            axes.append((2 * i + 1) / n - 1)
    return np.stack(np.meshgrid(*axes, indexing="ij"), axis=-1)[..., ::-1]


def hull_radius(shape: Sequence[int], align_corners: bool) -> np.ndarray:
    r"""Half side lengths (x, ...) of the box spanned by the samples in normalised coordinates."""
    n = np.asarray(shape[::-1], dtype=np.float64)
    return np.ones_like(n) if align_corners else 1 - 1 / n


def invariant_affine(rng: np.random.Generator, shape: Sequence[int], align_corners: bool, strength: float = 1.0):
    r"""Random generator (H, b) of ``v(x) = H x + b`` whose flow keeps the sample hull invariant.

    Weighted diagonal dominance with negative diagonal: sum_{j != i} |H_ij| r_j + |b_i| <= |H_ii| r_i, |H_ii| <= 1,
    so that x + t (H x + b) stays in the box for every t in [0, 1] (every squaring step samples inside the hull).
    """
    D = len(shape)
    r = hull_radius(shape, align_corners)
    H = np.zeros((D, D))
    b = np.zeros(D)
    for i in range(D):
        d = rng.uniform(0.2, 1.0) * strength
        budget = d * r[i] * rng.uniform(0.3, 0.95)
        w = rng.dirichlet(np.ones(D))  # split budget between off-diagonals and offset
        k = 0
        for j in range(D):
            if j == i:
                continue
            H[i, j] = rng.choice([-1, 1]) * budget * w[k] / r[j]
            k += 1
        b[i] = rng.choice([-1, 1]) * budget * w[k]
        H[i, i] = -d
    return H, b


def hom(H: np.ndarray, b: np.ndarray) -> np.ndarray:
    D = H.shape[0]
    M = np.zeros((D + 1, D + 1))
    M[:D, :D] = H
    M[:D, D] = b
    return M


def exp_squaring(H: np.ndarray, b: np.ndarray, steps: int, scale: float = 1.0) -> np.ndarray:
    r"""Homogeneous matrix of (I + G / 2^k)^(2^k) with G = scale * [H b; 0 0]."""
    D = H.shape[0]
    G = hom(H, b) * scale
    M = np.eye(D + 1) + G / 2**steps
    for _ in range(steps):
        M = M @ M
    return M


def exp_exact(H: np.ndarray, b: np.ndarray, scale: float = 1.0) -> np.ndarray:
    from scipy.linalg import expm

    return expm(hom(H, b) * scale)


def affine_field(M: np.ndarray, x: np.ndarray) -> np.ndarray:
    r"""Displacement ``M x - x`` at points x (..., D) for a homogeneous (D+1, D+1) matrix; returns (D, ...)."""
    D = x.shape[-1]
    y = x @ M[:D, :D].T + M[:D, D]
    return np.moveaxis(y - x, -1, 0)


def velocity_field(H: np.ndarray, b: np.ndarray, x: np.ndarray) -> np.ndarray:
    return np.moveaxis(x @ H.T + b, -1, 0)


def smooth_field(rng: np.random.Generator, shape: Sequence[int], align_corners: bool, amplitude_samples: float, modes: int = 2) -> np.ndarray:
    r"""Band-limited field vanishing at the boundary of the normalised cube; returns (D, ..., X) in cube units.

    ``amplitude_samples``: maximum displacement magnitude per component measured in samples.
    """
    D = len(shape)
    x = norm_coords(shape, align_corners)  # (..., D)
    out = np.zeros((D,) + tuple(shape))
    for c in range(D):
        f = np.zeros(tuple(shape))
        for _ in range(3):
            k = rng.integers(1, modes + 1, size=D)
            term = rng.normal()
            for d in range(D):
                term = term * np.sin(k[d] * np.pi * (x[..., d] + 1) / 2)
            f = f + term
        f = f / (np.abs(f).max() + 1e-12)
        n_c = shape[::-1][c]
        unit = 2.0 / (n_c - 1 if align_corners else n_c)  # one sample in cube units
        out[c] = f * amplitude_samples * unit
    return out


# ---------------------------------------------------------------- analytic derivatives (physical units)
def sample_positions(shape: Sequence[int], spacing: Sequence[float]) -> np.ndarray:
    r"""Positions p = index * spacing, array (..., X, D) in (x, ...) order."""
    axes = [np.arange(n, dtype=np.float64) for n in shape]
    idx = np.stack(np.meshgrid(*axes, indexing="ij"), axis=-1)[..., ::-1]
    return idx * np.asarray(spacing, dtype=np.float64)


def affine_poly(A: np.ndarray, t: np.ndarray, p: np.ndarray) -> np.ndarray:
    r"""u(p) = A p + t -> (D, ..., X)."""
    return np.moveaxis(p @ A.T + t, -1, 0)


def quadratic_poly(Q: np.ndarray, A: np.ndarray, t: np.ndarray, p: np.ndarray) -> np.ndarray:
    r"""u_c(p) = 1/2 p^T Q_c p + A_c p + t_c with symmetric Q_c; returns (C, ..., X)."""
    quad = 0.5 * np.einsum("...i,cij,...j->...c", p, Q, p)
    return np.moveaxis(quad + p @ A.T + t, -1, 0)
