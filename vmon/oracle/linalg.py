r"""Reference linear algebra (float64 numpy): full homogeneous matrices, elementary rotations, Rodrigues, quaternions."""

from __future__ import annotations

import numpy as np


def full(x: np.ndarray, D: int) -> np.ndarray:
    r"""Any accepted form -> full (..., D+1, D+1) matrix: (D,) or (..., D, 1) translation, (..., D, D), (..., D, D+1)."""
    x = np.asarray(x, dtype=np.float64)
    if x.ndim == 1:
        x = x[:, None]
    lead = x.shape[:-2]
    M = np.zeros(lead + (D + 1, D + 1))
    M[..., np.arange(D + 1), np.arange(D + 1)] = 1
    if x.shape[-1] == 1:
        M[..., :D, D] = x[..., 0]
    elif x.shape[-1] == D:
        M[..., :D, :D] = x
    elif x.shape[-1] == D + 1:
        M[..., :D, :] = x
    else:
        raise ValueError(x.shape)
    return M


def Rx(a):
    c, s = np.cos(a), np.sin(a)
    return np.array([[1, 0, 0], [0, c, -s], [0, s, c]])


def Ry(a):
    c, s = np.cos(a), np.sin(a)
    return np.array([[c, 0, s], [0, 1, 0], [-s, 0, c]])


def Rz(a):
    c, s = np.cos(a), np.sin(a)
    return np.array([[c, -s, 0], [s, c, 0], [0, 0, 1]])


ELEMENTARY = {"X": Rx, "Y": Ry, "Z": Rz}


def euler(angles, order: str) -> np.ndarray:
    r"""R = R_{order[0]}(angles[0]) R_{order[1]}(angles[1]) R_{order[2]}(angles[2]) (first angle = left-most factor)."""
    R = np.eye(3)
    for a, c in zip(angles, order.upper()):
        R = R @ ELEMENTARY[c](a)
    return R


def rot2(a):
    c, s = np.cos(a), np.sin(a)
    return np.array([[c, -s], [s, c]])


def rodrigues(v) -> np.ndarray:
    v = np.asarray(v, dtype=np.float64)
    th = np.linalg.norm(v)
    if th < 1e-300:
        return np.eye(3)
    k = v / th
    K = np.array([[0, -k[2], k[1]], [k[2], 0, -k[0]], [-k[1], k[0], 0]])
    return np.eye(3) + np.sin(th) * K + (1 - np.cos(th)) * (K @ K)


def quat(q) -> np.ndarray:
    r"""(w, x, y, z) -> rotation matrix."""
    w, x, y, z = np.asarray(q, dtype=np.float64) / np.linalg.norm(q)
    return np.array(
        [
            [1 - 2 * (y * y + z * z), 2 * (x * y - z * w), 2 * (x * z + y * w)],
            [2 * (x * y + z * w), 1 - 2 * (x * x + z * z), 2 * (y * z - x * w)],
            [2 * (x * z - y * w), 2 * (y * z + x * w), 1 - 2 * (x * x + y * y)],
        ]
    )


def is_rotation(R, tol=1e-9) -> bool:
    R = np.asarray(R, dtype=np.float64)
    D = R.shape[-1]
    return bool(np.abs(R @ np.swapaxes(R, -1, -2) - np.eye(D)).max() < tol and np.abs(np.linalg.det(R) - 1).max() < tol)
