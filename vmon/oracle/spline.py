r"""Cubic B-spline basis from its textbook piecewise-polynomial definition (float64), tensor-product evaluation.

Pieces on half-open knot intervals (right-continuous, matters only for the third derivative at knots):

    [-2,-1): (2 + t)^3 / 6      [-1,0): 2/3 - t^2 - t^3/2      [0,1): 2/3 - t^2 + t^3/2      [1,2): (2 - t)^3 / 6

"""

from __future__ import annotations

from typing import Sequence

import numpy as np
from numpy.polynomial import polynomial as P

# coefficients in increasing powers of t
_PIECES = {
    -2: np.array([8, 12, 6, 1], dtype=np.float64) / 6,
    -1: np.array([2 / 3, 0, -1, -0.5], dtype=np.float64),
    0: np.array([2 / 3, 0, -1, 0.5], dtype=np.float64),
    1: np.array([8, -12, 6, -1], dtype=np.float64) / 6,
}


def basis(t, derivative: int = 0) -> np.ndarray:
    t = np.asarray(t, dtype=np.float64)
    out = np.zeros_like(t)
    k = np.floor(t + 1e-12).astype(int)  # tolerate round-off just below a knot
    for piece, coef in _PIECES.items():
        c = coef
        for _ in range(derivative):
            c = P.polyder(c)
        m = k == piece
        if m.any():
            out[m] = P.polyval(t[m], c) if len(np.atleast_1d(c)) else 0.0
    return out


def weights_1d(n_out: int, n_ctrl: int, stride: int, derivative: int = 0) -> np.ndarray:
    r"""Matrix W (n_out, n_ctrl): f(x_j) = sum_m W[j, m] c[m], output sample j at control-lattice coordinate
    j / stride with control point m located at coordinate m - 1 (one control point before the first sample)."""
    j = np.arange(n_out, dtype=np.float64)[:, None]
    m = np.arange(n_ctrl, dtype=np.float64)[None, :]
    return basis(j / stride - (m - 1), derivative)


def evaluate(coef: np.ndarray, shape: Sequence[int], stride: Sequence[int], derivative: Sequence[int] = None) -> np.ndarray:
    r"""Tensor-product evaluation. ``coef`` (..., M_z, M_y, M_x); shape (..., X) order; stride/derivative in (x, ...) order."""
    D = len(shape)
    if derivative is None:
        derivative = [0] * D
    out = np.asarray(coef, dtype=np.float64)
    for a in range(D):  # array axis a (from the first spatial axis) corresponds to spatial dim D-1-a
        sd = D - 1 - a
        W = weights_1d(shape[a], out.shape[out.ndim - D + a], stride[sd], derivative[sd])
        out = np.moveaxis(np.tensordot(W, out, axes=([1], [out.ndim - D + a])), 0, out.ndim - D + a)
    return out


def subdivision_reference(coef_1d: np.ndarray) -> np.ndarray:
    r"""Exact refinement of a 1-D cubic B-spline coefficient sequence (two-scale relation)."""
    c = np.asarray(coef_1d, dtype=np.float64)
    n = len(c)
    out = np.zeros(2 * n - 1)
    cp = np.pad(c, 1)
    out[0::2] = 0.125 * cp[:-2] + 0.75 * cp[1:-1] + 0.125 * cp[2:]
    out[1::2] = 0.5 * c[:-1] + 0.5 * c[1:]
    return out
