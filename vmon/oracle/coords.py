r"""Reference implementation of the four coordinate systems of a sampling grid (float64, numpy only).

Written from the documented anchors, not from deepali's branch table:

    world  = origin + R diag(s) i                  (index 0 is the origin)
    origin = center - R diag(s) (n - 1) / 2        (index (n-1)/2 is the center)
    cube         = (2 i + 1) / n - 1               (-1/+1 half a sample beyond first/last sample)
    cube_corners = 2 i / (n - 1) - 1               (-1/+1 are the first/last sample)

Every map A -> B is composed as (grid-index -> B) o (A -> grid-index); for two grids through world.

"""

from __future__ import annotations

from typing import Optional, Tuple

import numpy as np

GRID, CUBE, CORNERS, WORLD = "grid", "cube", "cube_corners", "world"
AXES = (GRID, CUBE, CORNERS, WORLD)


def hom(L: np.ndarray, t: np.ndarray) -> np.ndarray:
    D = L.shape[0]
    M = np.eye(D + 1)
    M[:D, :D] = L
    M[:D, D] = t
    return M


class RefGrid:
    def __init__(self, size, spacing, direction, origin=None, center=None):
        self.n = np.asarray(size, dtype=np.float64)
        self.s = np.asarray(spacing, dtype=np.float64)
        self.D = len(self.n)
        self.R = np.asarray(direction, dtype=np.float64).reshape(self.D, self.D)
        A = self.R @ np.diag(self.s)
        half = np.where(self.n > 0, self.n - 1, self.n) / 2
        if origin is not None:
            self.o = np.asarray(origin, dtype=np.float64)
            self.c = self.o + A @ half
        else:
            self.c = np.asarray(center if center is not None else np.zeros(self.D), dtype=np.float64)
            self.o = self.c - A @ half
        self.A = A

    # --- maps to and from continuous grid index, as homogeneous matrices
    def to_index(self, axes: str) -> np.ndarray:
        n, D = self.n, self.D
        if axes == GRID:
            return np.eye(D + 1)
        if axes == CUBE:  # i = (c + 1) n / 2 - 1/2
            return hom(np.diag(n / 2), n / 2 - 0.5)
        if axes == CORNERS:  # i = (c + 1) (n - 1) / 2
            return hom(np.diag((n - 1) / 2), (n - 1) / 2)
        if axes == WORLD:  # i = S^-1 R^T (w - o)
            L = np.diag(1 / self.s) @ self.R.T
            return hom(L, -L @ self.o)
        raise ValueError(axes)

    def from_index(self, axes: str) -> np.ndarray:
        n, D = self.n, self.D
        if axes == GRID:
            return np.eye(D + 1)
        if axes == CUBE:
            return hom(np.diag(2 / n), 1 / n - 1)
        if axes == CORNERS:
            with np.errstate(divide="ignore"):
                return hom(np.diag(2 / (n - 1)), -np.ones(D))
        if axes == WORLD:
            return hom(self.A, self.o)
        raise ValueError(axes)

    def matrix(self, axes: str, to_axes: str, to: Optional["RefGrid"] = None) -> np.ndarray:
        if to is None or to is self:
            return self.from_index(to_axes) @ self.to_index(axes)
        return to.from_index(to_axes) @ to.to_index(WORLD) @ self.from_index(WORLD) @ self.to_index(axes)

    def points(self, x, axes: str, to_axes: str, to: Optional["RefGrid"] = None) -> np.ndarray:
        M = self.matrix(axes, to_axes, to)
        x = np.asarray(x, dtype=np.float64)
        return x @ M[: self.D, : self.D].T + M[: self.D, self.D]

    def vectors(self, v, axes: str, to_axes: str, to: Optional["RefGrid"] = None) -> np.ndarray:
        M = self.matrix(axes, to_axes, to)
        v = np.asarray(v, dtype=np.float64)
        return v @ M[: self.D, : self.D].T

    # --- forward error bound of evaluating the chain in floating point with unit round-off ``eps``
    def chain(self, axes: str, to_axes: str, to: Optional["RefGrid"] = None):
        r"""Elementary affine steps (L, t, t_abs) of the evaluation A -> B, for error propagation.

        ``t_abs`` bounds the magnitude of the terms that were summed to form ``t`` (cancellation).
        """
        steps = []

        def to_idx(g: RefGrid, a: str):
            if a == WORLD:
                steps.append((np.eye(g.D), -g.o, np.abs(g.c) + np.abs(g.A) @ np.abs((g.n - 1) / 2)))
                L = np.diag(1 / g.s) @ g.R.T
                steps.append((L, np.zeros(g.D), np.zeros(g.D)))
            elif a != GRID:
                M = g.to_index(a)
                steps.append((M[: g.D, : g.D], M[: g.D, g.D], np.abs(M[: g.D, g.D])))

        def from_idx(g: RefGrid, a: str):
            if a == WORLD:
                steps.append((g.A, g.o, np.abs(g.c) + np.abs(g.A) @ np.abs((g.n - 1) / 2)))
            elif a != GRID:
                M = g.from_index(a)
                steps.append((M[: g.D, : g.D], M[: g.D, g.D], np.abs(M[: g.D, g.D])))

        if to is None or to is self:
            to_idx(self, axes)
            from_idx(self, to_axes)
        else:
            to_idx(self, axes)
            from_idx(self, WORLD)
            to_idx(to, WORLD)
            from_idx(to, to_axes)
        return steps

    def tol(self, x_abs, axes, to_axes, to=None, eps=1.2e-7, k=64.0, vectors=False, floor=0.0) -> np.ndarray:
        r"""Element-wise tolerance for the result of mapping points of magnitude ``x_abs``."""
        x_abs = np.asarray(x_abs, dtype=np.float64)
        bound = x_abs
        err = eps * x_abs
        with np.errstate(invalid="ignore", divide="ignore"):
            for L, t, t_abs in self.chain(axes, to_axes, to):
                aL = np.abs(L)
                if vectors:
                    bound = bound @ aL.T
                    err = err @ aL.T + eps * bound
                else:
                    nb = bound @ aL.T + t_abs
                    err = err @ aL.T + eps * nb
                    bound = bound @ aL.T + np.abs(t) + t_abs * 0  # magnitude actually carried forward
                    bound = np.maximum(bound, 0)
        return k * err + floor


def rot2(theta: float) -> np.ndarray:
    c, s = np.cos(theta), np.sin(theta)
    return np.array([[c, -s], [s, c]])


def quat_to_matrix(q) -> np.ndarray:
    w, x, y, z = np.asarray(q, dtype=np.float64) / np.linalg.norm(q)
    return np.array(
        [
            [1 - 2 * (y * y + z * z), 2 * (x * y - z * w), 2 * (x * z + y * w)],
            [2 * (x * y + z * w), 1 - 2 * (x * x + z * z), 2 * (y * z - x * w)],
            [2 * (x * z - y * w), 2 * (y * z + x * w), 1 - 2 * (x * x + y * y)],
        ]
    )
