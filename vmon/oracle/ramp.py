r"""Linear intensity ramps in world space and field-of-view bookkeeping.

An image ``f(w) = a . (w - c0) / L + b`` is reproduced exactly by linear interpolation, by smoothing
with a normalised symmetric kernel and by average pooling wherever the whole support of the operation
lies inside the sampled region. :class:`Validity` tracks that region through chains of operations as a
list of index boxes in the frames of the grids the data went through.

"""

from __future__ import annotations

from typing import List, Optional, Sequence, Tuple

import numpy as np

from .coords import GRID, WORLD, RefGrid


def grid_indices(shape: Sequence[int]) -> np.ndarray:
    r"""Integer indices of all samples, array of shape ``(..., X, D)`` with components in (x, ...) order."""
    axes = [np.arange(k, dtype=np.float64) for k in shape]
    return np.stack(np.meshgrid(*axes, indexing="ij"), axis=-1)[..., ::-1]


def world_positions(ref: RefGrid) -> np.ndarray:
    shape = tuple(int(k) for k in ref.n[::-1])
    return ref.points(grid_indices(shape), GRID, WORLD)


class Ramp:
    r"""``f_c(w) = a_c . (w - c0) / L + b_c`` for channels c."""

    def __init__(self, a, b, c0, L):
        self.a = np.asarray(a, dtype=np.float64)  # (C, D)
        self.b = np.asarray(b, dtype=np.float64)  # (C,)
        self.c0 = np.asarray(c0, dtype=np.float64)
        self.L = float(L)

    @classmethod
    def random(cls, rng, C, ref: RefGrid):
        D = ref.D
        a = rng.normal(size=(C, D))
        a /= np.linalg.norm(a, axis=1, keepdims=True) + 1e-12
        b = rng.uniform(-0.5, 0.5, size=C)
        L = 0.5 * float(np.linalg.norm(ref.s * ref.n))
        return cls(a, b, ref.c, L)

    def __call__(self, w: np.ndarray) -> np.ndarray:
        r"""Values at world points ``w`` (..., D) -> (C, ...)."""
        v = np.tensordot((w - self.c0) / self.L, self.a, axes=([-1], [1])) + self.b  # (..., C)
        return np.moveaxis(v, -1, 0)

    def on_grid(self, ref: RefGrid) -> np.ndarray:
        return self(world_positions(ref))

    def step(self, ref: RefGrid) -> float:
        r"""Largest change of the ramp per sample step of ``ref`` (size of the smallest visible fault)."""
        return float(np.abs(self.a @ ref.A / self.L).max())

    def describe(self):
        return {"a": self.a.tolist(), "b": self.b.tolist(), "c0": self.c0.tolist(), "L": self.L}


class Validity:
    r"""Region of world space in which derived data must still equal the ramp."""

    def __init__(self, boxes: Optional[List[Tuple[RefGrid, np.ndarray, np.ndarray]]] = None):
        self.boxes = list(boxes or [])

    @classmethod
    def of(cls, ref: RefGrid) -> "Validity":
        return cls([(ref, np.zeros(ref.D), ref.n - 1)])

    def after(self, ref_in: RefGrid, support: Sequence[float], interpolates: bool) -> "Validity":
        r"""Validity after an operation whose input grid is ``ref_in``.

        ``support``: half-width (in input samples per axis) of the filter applied before resampling;
        ``interpolates``: linear interpolation between neighbouring input samples follows.
        """
        m = np.asarray(support, dtype=np.float64)
        reach = m + (1.0 if interpolates else 0.0)
        reach = np.where((m > 0) | interpolates, reach, 0.0)
        rho = float(np.sqrt(((reach * ref_in.s) ** 2).sum()))
        boxes = []
        for ref, lo, hi in self.boxes:
            d = rho / ref.s
            boxes.append((ref, lo + d, hi - d))
        boxes.append((ref_in, m.copy(), ref_in.n - 1 - m))
        return Validity(boxes)

    def mask(self, w: np.ndarray, slack: float = 1e-6) -> np.ndarray:
        # slack must stay far below the value tolerance: a sample `slack` outside the FOV blends in that
        # fraction of the padding value
        ok = np.ones(w.shape[:-1], dtype=bool)
        for ref, lo, hi in self.boxes:
            idx = ref.points(w, WORLD, GRID)
            ok &= ((idx >= lo - slack) & (idx <= hi + slack)).all(axis=-1)
        return ok
