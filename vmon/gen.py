r"""Seeded generators of geometries, tensors and fields. All values handed to deepali are float32-representable."""

from __future__ import annotations

import itertools
from typing import Any, Dict, List, Optional, Sequence, Tuple

import numpy as np

from .oracle.coords import RefGrid, quat_to_matrix, rot2


def f32(x) -> np.ndarray:
    r"""Round to float32 and return as float64 (so the oracle sees exactly what the library stores)."""
    return np.asarray(x, dtype=np.float32).astype(np.float64)


def signed_perm(rng: np.random.Generator, D: int) -> np.ndarray:
    r"""Axis permutation with flips, determinant +1."""
    perm = rng.permutation(D)
    M = np.zeros((D, D))
    for i, p in enumerate(perm):
        M[p, i] = rng.choice([-1.0, 1.0])
    if np.linalg.det(M) < 0:
        M[:, 0] *= -1
    return M


def rand_direction(rng: np.random.Generator, D: int, kind: Optional[str] = None) -> Tuple[np.ndarray, str]:
    if kind is None:
        kind = rng.choice(["identity", "perm", "rot", "rot", "rot", "smallrot"])
    if kind == "identity":
        R = np.eye(D)
    elif kind == "perm":
        R = signed_perm(rng, D)
    elif kind == "smallrot":
        if D == 2:
            R = rot2(rng.normal() * 0.05)
        else:
            q = np.r_[1.0, rng.normal(size=3) * 0.03]
            R = quat_to_matrix(q)
    else:
        if D == 2:
            R = rot2(rng.uniform(-np.pi, np.pi))
        else:
            R = quat_to_matrix(rng.normal(size=4))
    return f32(R), str(kind)


SPACINGS = [1.0, 0.5, 0.75, 1.25, 2.75]


def rand_size(rng: np.random.Generator, max_size: int, min_size: int = 2) -> int:
    kind = rng.integers(0, 6)
    if kind == 0:
        n = min_size
    elif kind == 1:
        n = min_size + 1
    elif kind == 2:
        n = int(rng.integers(min_size, max(min(max_size, 9), min_size) + 1))
    elif kind == 3:
        n = int(rng.integers(min_size, max_size + 1)) | 1
    elif kind == 4:
        n = int(rng.integers(min_size, max_size + 1)) & ~1
    else:
        n = int(rng.integers(min_size, max_size + 1))
    return int(min(max(n, min_size), max_size))


def rand_grid_params(
    rng: np.random.Generator,
    D: Optional[int] = None,
    max_size: int = 24,
    min_size: int = 2,
    direction: Optional[str] = None,
    route: Optional[str] = None,
    align_corners: Optional[bool] = None,
    big_offset: bool = True,
) -> Dict[str, Any]:
    if D is None:
        D = int(rng.choice([2, 3]))
    size = [rand_size(rng, max_size, min_size) for _ in range(D)]
    sp_kind = rng.integers(0, 4)
    if sp_kind == 0:
        spacing = np.ones(D)
    elif sp_kind == 1:
        spacing = np.full(D, rng.choice(SPACINGS))
    elif sp_kind == 2:
        spacing = rng.choice(SPACINGS, size=D)
    else:
        spacing = np.exp(rng.uniform(np.log(0.1), np.log(5.0), size=D))
    spacing = f32(spacing)
    R, rkind = rand_direction(rng, D, direction)
    pos_kind = rng.integers(0, 3 if big_offset else 2)
    if pos_kind == 0:
        pos = np.zeros(D)
    elif pos_kind == 1:
        pos = rng.normal(size=D) * 3
    else:
        pos = rng.uniform(-150, 150, size=D)
    pos = f32(pos)
    if route is None:
        route = str(rng.choice(["center", "origin"]))
    if align_corners is None:
        align_corners = bool(rng.integers(0, 2))
    p = {
        "D": D,
        "size": size,
        "spacing": spacing.tolist(),
        "direction": R.tolist(),
        "direction_kind": rkind,
        "route": route,
        route: pos.tolist(),
        "align_corners": align_corners,
    }
    return p


def grid_nontrivial(p: Dict[str, Any]) -> bool:
    R = np.asarray(p["direction"])
    rotated = np.abs(R - np.diag(np.diag(R))).max() > 1e-6
    s = np.asarray(p["spacing"])
    aniso = np.ptp(s) > 1e-6 or abs(s[0] - 1) > 1e-6
    pos = np.asarray(p[p["route"]])
    return bool(rotated or aniso or np.abs(pos).max() > 0)


def make_grid(p: Dict[str, Any]):
    import torch
    from deepali.core.grid import Grid

    kw = dict(
        size=tuple(p["size"]),
        spacing=torch.tensor(p["spacing"], dtype=torch.float32),
        direction=torch.tensor(p["direction"], dtype=torch.float32),
        align_corners=p["align_corners"],
    )
    kw[p["route"]] = torch.tensor(p[p["route"]], dtype=torch.float32)
    return Grid(**kw)


def ref_grid(p: Dict[str, Any]) -> RefGrid:
    return RefGrid(p["size"], p["spacing"], p["direction"], **{p["route"]: p[p["route"]]})


def ref_of_grid(grid) -> RefGrid:
    r"""Reference grid from the attributes a deepali Grid *stores* (size, spacing, center, direction)."""
    return RefGrid(
        [float(n) for n in grid.size()],
        grid.spacing().double().numpy(),
        grid.direction().double().numpy(),
        center=grid.center().double().numpy(),
    )


def rand_points(rng: np.random.Generator, lo, hi, lead: Sequence[int]) -> np.ndarray:
    lo = np.asarray(lo, dtype=np.float64)
    hi = np.asarray(hi, dtype=np.float64)
    x = rng.uniform(0, 1, size=tuple(lead) + lo.shape)
    return f32(lo + x * (hi - lo))


LEADING_SHAPES = [(), (5,), (2, 4), (3, 1, 2)]


def tensor_forms(x: np.ndarray, dtype) -> List[Tuple[str, Any]]:
    r"""Contiguous, transposed-view and expanded-view forms of the same values."""
    import torch

    t = torch.tensor(x, dtype=dtype)
    forms = [("contiguous", t)]
    if t.ndim >= 3:
        tt = t.transpose(0, 1).contiguous().transpose(0, 1)
        forms.append(("noncontiguous", tt))
    return forms
