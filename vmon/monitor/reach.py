r"""Which functions of the library did a workload enter at all?  (``sys.monitoring`` PY_START, Python 3.12)

The callback records the code object and returns ``DISABLE``, so every function costs one event per process. The
result is the set of ``(file relative to src/deepali, qualified name)`` entered while the monitor was on. It is not a
deciding monitor: ``tools/apireach.py`` uses it to list the public functions of ``deepali`` that *no* check's
workload reaches - the places where a change cannot be observed whatever the oracles are.
"""

from __future__ import annotations

import os
import sys
from typing import Set, Tuple

TOOL_ID = 4


class ApiReach:
    def __init__(self, src_root: str):
        self.root = os.path.join(os.path.abspath(src_root), "deepali") + os.sep
        self.seen: Set[Tuple[str, str]] = set()
        self.enabled = False

    def start(self) -> None:
        if not hasattr(sys, "monitoring"):
            return
        mon = sys.monitoring
        try:
            mon.use_tool_id(TOOL_ID, "vmon-reach")
        except ValueError:
            return
        mon.register_callback(TOOL_ID, mon.events.PY_START, self._on_start)
        mon.set_events(TOOL_ID, mon.events.PY_START)
        self.enabled = True

    def _on_start(self, code, offset):
        fn = code.co_filename
        if fn.startswith(self.root):
            self.seen.add((fn[len(self.root) :], code.co_qualname))
        return sys.monitoring.DISABLE

    def stop(self) -> None:
        if not self.enabled:
            return
        mon = sys.monitoring
        mon.set_events(TOOL_ID, 0)
        mon.register_callback(TOOL_ID, mon.events.PY_START, None)
        mon.free_tool_id(TOOL_ID)
        self.enabled = False

    def dump(self) -> list:
        return sorted([list(x) for x in self.seen])
