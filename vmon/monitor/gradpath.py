r"""Records where a tensor that requires grad is rounded or detached while a C20 workload runs.

``torch.round`` has zero gradient almost everywhere and ``detach`` cuts the graph: when a finite-difference check
fails, the recorded call sites (inside deepali) pinpoint *where* the gradient died.
"""

from __future__ import annotations

import contextlib
import traceback
from typing import List


class GradPath:
    def __init__(self):
        self.events: List[dict] = []
        self._undo = []

    def _site(self):
        for fr in reversed(traceback.extract_stack()[:-2]):
            if "/deepali/" in fr.filename:
                return f"{fr.filename.split('/deepali/')[-1]}:{fr.lineno}:{fr.name}"
        return None

    def _wrap(self, owner, name, kind):
        import torch

        orig = getattr(owner, name)
        outer = self

        def wrapper(*args, **kwargs):
            t = args[0] if args else None
            if isinstance(t, torch.Tensor) and t.requires_grad and torch.is_grad_enabled():
                site = outer._site()
                if site is not None and len(outer.events) < 50:
                    outer.events.append({"op": kind, "site": site})
            return orig(*args, **kwargs)

        setattr(owner, name, wrapper)
        self._undo.append((owner, name, orig))

    def __enter__(self):
        import torch
        import deepali.core.grid as G
        import deepali.core.math as M

        self._wrap(torch, "round", "torch.round")
        self._wrap(M, "round_decimals", "round_decimals")
        self._wrap(G, "round_decimals", "round_decimals")
        return self

    def __exit__(self, *exc):
        for owner, name, orig in reversed(self._undo):
            setattr(owner, name, orig)
        self._undo.clear()
        return False

    def sites(self):
        return sorted({f"{e['op']}@{e['site']}" for e in self.events})


def cast_monitor():
    r"""Torch function mode which counts float32 tensors that require grad while an operation is evaluated.

    With float64 leaves, any such tensor means that the differentiable path is evaluated in float32 somewhere
    (e.g. ``grid_sample`` casts the data to the dtype of ``Grid.coords()``): finite differences then need float32
    step sizes. Observed directly on the running code rather than inferred from the noise of the result.
    """
    import torch
    from torch.overrides import TorchFunctionMode

    class CastMonitor(TorchFunctionMode):
        def __init__(self):
            super().__init__()
            self.float32_grad_tensors = 0
            self.first = None

        def __torch_function__(self, func, types, args=(), kwargs=None):
            out = func(*args, **(kwargs or {}))
            for r in out if isinstance(out, (tuple, list)) else (out,):
                if isinstance(r, torch.Tensor) and r.dtype == torch.float32 and r.requires_grad:
                    self.float32_grad_tensors += 1
                    if self.first is None:
                        self.first = getattr(func, "__name__", str(func))
            return out

    return CastMonitor()
