r"""Installs the mutation monitor on every public function of the tensor-level API and the losses namespace.

Used by C15 (own workload), by the pytest plugin (repository tests run under the monitor) and by the thorough
tier of C15 (quick workloads of other checks run under the monitor).
"""

from __future__ import annotations

import importlib
import inspect
from typing import Callable, Dict, List, Optional

from .contracts import Installed
from .mutation import diff, snapshot

INPLACE_KWARGS = ("inplace", "out")


class FunctionMonitor:
    def __init__(self, report: Callable[[str, list, dict], None]):
        r"""``report(qualified_name, changes, call_info)`` is invoked for every observed argument mutation."""
        self.report = report
        self.inst = Installed()
        self.calls: Dict[str, int] = {}
        self.wrappers = {}
        self.aliases = {}

    def install(self):
        from deepali.core import functional as U
        from deepali.losses import functional as LF

        for mod in (U, LF):
            for name in mod.__all__:
                fn = getattr(mod, name, None)
                if not inspect.isfunction(fn):
                    continue
                if hasattr(fn, "_vmon_state"):  # alias of an already monitored function
                    self.aliases[f"{mod.__name__.split('.')[1]}.{name}"] = fn
                    continue
                qual = f"{mod.__name__.split('.')[1]}.{name}"
                if qual in self.wrappers:
                    continue
                home = importlib.import_module(fn.__module__)
                owner = home if getattr(home, fn.__name__, None) is fn else mod
                self.wrappers[qual] = self.inst.wrap(owner, fn.__name__ if owner is home else name, pre=self._pre(qual, fn), post=self._post(qual))
        return self

    def uninstall(self):
        self.inst.uninstall()

    def _pre(self, qual, fn):
        try:
            sig = inspect.signature(fn)
        except (TypeError, ValueError):
            sig = None

        def pre(args, kwargs):
            # documented in-place variants are exempt
            if sig is not None:
                try:
                    bound = sig.bind_partial(*args, **kwargs).arguments
                except TypeError:
                    bound = kwargs
            else:
                bound = kwargs
            if bound.get("inplace") or bound.get("out") is not None:
                return None
            return snapshot((args, kwargs))

        return pre

    def _post(self, qual):
        def post(args, kwargs, result, exc, snap):
            self.calls[qual] = self.calls.get(qual, 0) + 1
            if snap is None:
                return
            changes = diff(snap)
            if changes:
                self.report(qual, changes, {"raised": type(exc).__name__ if exc is not None else None})

        return post
