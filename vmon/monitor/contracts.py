r"""Minimal contract layer: pre-snapshot / postcondition observers attached to the real functions.

Same shape as icontract (snapshot, named postcondition, explicit error type, evaluation counter) but
tensor-aware and with no install step. Contracts are *observers*: they never alter arguments or results.

``wrap(owner, name, post=..., pre=...)`` replaces ``owner.name`` and every other ``deepali.*`` module
attribute bound to the same function object (``from .image import conv`` style aliases).

"""

from __future__ import annotations

import functools
import sys
from typing import Any, Callable, List, Optional


class Installed:
    def __init__(self):
        self.undo: List[tuple] = []

    def wrap(self, owner: Any, name: str, post: Optional[Callable] = None, pre: Optional[Callable] = None, ctx_getter=None):
        raw = owner.__dict__[name] if isinstance(owner, type) else getattr(owner, name)
        is_static = isinstance(raw, staticmethod)
        is_class = isinstance(raw, classmethod)
        fn = raw.__func__ if (is_static or is_class) else raw

        @functools.wraps(fn)
        def wrapper(*args, **kwargs):
            state = wrapper._vmon_state
            if state["depth_guard"]:
                return fn(*args, **kwargs)
            snap = None
            if pre is not None:
                state["depth_guard"] = True
                try:
                    snap = pre(args, kwargs)
                except Exception:  # noqa: BLE001  (observer failure is not the library's fault)
                    snap = None
                    state["pre_errors"] += 1
                finally:
                    state["depth_guard"] = False
            exc = None
            result = None
            try:
                result = fn(*args, **kwargs)
            except BaseException as e:  # noqa: BLE001
                exc = e
            if post is not None:
                state["depth_guard"] = True
                try:
                    post(args, kwargs, result, exc, snap)
                    state["evaluations"] += 1
                except Exception as e:  # noqa: BLE001
                    state["post_errors"] += 1
                    state["last_post_error"] = f"{type(e).__name__}: {e}"
                finally:
                    state["depth_guard"] = False
            if exc is not None:
                raise exc
            return result

        wrapper._vmon_state = {"depth_guard": False, "evaluations": 0, "post_errors": 0, "pre_errors": 0, "last_post_error": None}
        wrapper.__wrapped__ = fn
        new = staticmethod(wrapper) if is_static else classmethod(wrapper) if is_class else wrapper
        setattr(owner, name, new)
        self.undo.append((owner, name, raw))
        # aliases in other deepali modules
        if not isinstance(owner, type):
            for modname, mod in list(sys.modules.items()):
                if mod is None or not modname.startswith("deepali") or mod is owner:
                    continue
                for k, v in list(getattr(mod, "__dict__", {}).items()):
                    if v is fn:
                        setattr(mod, k, wrapper)
                        self.undo.append((mod, k, fn))
        return wrapper

    def uninstall(self):
        for owner, name, raw in reversed(self.undo):
            setattr(owner, name, raw)
        self.undo.clear()
