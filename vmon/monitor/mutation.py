r"""Mutation monitor: the "sanitizer" of this stack.

For every tensor reachable from a call's arguments (or from a receiver object) a snapshot
``(id, data_ptr, _version, shape, stride, dtype, sha1(bytes))`` is taken before the call and compared
afterwards. PyTorch's per-tensor *version counter* increments on every in-place kernel, also through views,
so it reports in-place writes even when the written values are equal; the byte digest reports writes that
bypass the counter (e.g. through a numpy alias).

"""

from __future__ import annotations

import hashlib
from typing import Any, Dict, Iterable, List, Tuple


def _digest(t) -> str:
    import torch

    try:
        x = t.detach()
        if x.is_sparse or x.dtype in (torch.complex32,):
            return "n/a"
        x = x.contiguous().cpu()
        if x.dtype == torch.bfloat16:
            x = x.float()
        return hashlib.sha1(x.numpy().tobytes()).hexdigest()
    except Exception:  # noqa: BLE001
        return "n/a"


def reachable_tensors(obj: Any, path: str = "", seen=None, depth: int = 0) -> Iterable[Tuple[str, Any]]:
    r"""Yield (path, tensor) for every tensor reachable from ``obj``."""
    import torch

    if seen is None:
        seen = set()
    if depth > 6 or id(obj) in seen:
        return
    if isinstance(obj, torch.Tensor):
        seen.add(id(obj))
        yield path, obj
        g = getattr(obj, "_grid", None)  # DataTensor subclasses carry grids
        if g is not None:
            yield from reachable_tensors(g, path + "._grid", seen, depth + 1)
        return
    if isinstance(obj, (str, bytes, int, float, bool, type(None))):
        return
    seen.add(id(obj))
    if isinstance(obj, dict):
        for k, v in obj.items():
            yield from reachable_tensors(v, f"{path}[{k!r}]", seen, depth + 1)
        return
    if isinstance(obj, (list, tuple, set, frozenset)):
        for i, v in enumerate(obj):
            yield from reachable_tensors(v, f"{path}[{i}]", seen, depth + 1)
        return
    if isinstance(obj, torch.nn.Module):
        for n, p in obj.named_parameters(recurse=True):
            yield f"{path}.{n}", p
        for n, b in obj.named_buffers(recurse=True):
            yield f"{path}.{n}", b
        for k, v in obj.__dict__.items():
            if k.startswith("_") and k not in ("_grid", "_args", "_kwargs"):
                continue
            yield from reachable_tensors(v, f"{path}.{k}", seen, depth + 1)
        return
    slots = getattr(type(obj), "__slots__", None)
    if slots:
        for s in slots:
            if hasattr(obj, s):
                yield from reachable_tensors(getattr(obj, s), f"{path}.{s}", seen, depth + 1)
        return
    d = getattr(obj, "__dict__", None)
    if isinstance(d, dict) and type(obj).__module__.startswith("deepali"):
        for k, v in d.items():
            yield from reachable_tensors(v, f"{path}.{k}", seen, depth + 1)


def snapshot(obj: Any) -> Dict[str, tuple]:
    snap = {}
    for path, t in reachable_tensors(obj):
        try:
            snap[path] = (id(t), t.data_ptr() if t.numel() else 0, t._version, tuple(t.shape), tuple(t.stride()), str(t.dtype), _digest(t), t)
        except Exception:  # noqa: BLE001
            continue
    return snap


def diff(before: Dict[str, tuple], obj_after: Any = None) -> List[dict]:
    r"""Compare a snapshot with the current state of the *same tensor objects* (held in the snapshot)."""
    out = []
    for path, (tid, ptr, ver, shape, stride, dtype, dig, t) in before.items():
        try:
            now = (t._version, tuple(t.shape), tuple(t.stride()), str(t.dtype), _digest(t))
        except Exception:  # noqa: BLE001
            continue
        changes = []
        if now[0] != ver:
            changes.append(f"version {ver}->{now[0]}")
        if now[1] != shape or now[2] != stride or now[3] != dtype:
            changes.append(f"meta {shape}/{stride}/{dtype}->{now[1]}/{now[2]}/{now[3]}")
        if dig != "n/a" and now[4] != dig:
            changes.append("bytes changed")
        if changes:
            out.append({"path": path or "<arg>", "changes": changes})
    return out


def _condition_repr(args, kwargs):
    def one(v):
        import torch as _t

        if isinstance(v, _t.Tensor):
            return ("tensor", tuple(v.shape), float(v.detach().double().sum()) if v.numel() else 0.0)
        return repr(v)

    return (tuple(one(a) for a in (args or ())), tuple(sorted((k, one(v)) for k, v in (kwargs or {}).items())))


def state_signature(obj: Any) -> Dict[str, Any]:
    r"""Identity-level signature of a receiver: which tensor object sits at which path, plus simple attributes."""
    import torch

    sig = {}
    for path, t in reachable_tensors(obj):
        sig[path] = (id(t), tuple(t.shape), str(t.dtype))
    d = getattr(obj, "__dict__", None)
    if isinstance(d, dict):
        for k, v in d.items():
            if isinstance(v, (bool, int, float, str, tuple, type(None))) and not isinstance(v, torch.Tensor):
                sig["attr:" + k] = v
    # scalar attributes of the grids an image / batch / transform holds (e.g. the align_corners flag)
    gv = d.get("_grid") if isinstance(d, dict) else None
    grids = [] if gv is None else (list(gv) if isinstance(gv, (tuple, list)) else [gv])
    for i, gobj in enumerate(grids):
        for k, v in getattr(gobj, "__dict__", {}).items():
            if isinstance(v, (bool, int, float, str, type(None))):
                sig[f"grid[{i}].attr:{k}"] = v
        for sname in getattr(type(gobj), "__slots__", ()) or ():
            v = getattr(gobj, sname, None)
            if isinstance(v, (bool, int, float, str, type(None))):
                sig[f"grid[{i}].attr:{sname}"] = v
    if isinstance(obj, torch.nn.Module):
        # what a checkpoint of the receiver would contain (non-persistent caches are not part of it)
        try:
            sig["module:state_dict_keys"] = tuple(sorted(obj.state_dict().keys()))
            sig["module:parameter_names"] = tuple(sorted(n for n, _ in obj.named_parameters()))
            sig["module:training"] = bool(obj.training)
            # what every (sub)module is conditioned on: plain attributes of the spatial transforms
            for mname, m in obj.named_modules():
                if hasattr(m, "_args") or hasattr(m, "_kwargs"):
                    sig[f"module[{mname}]:condition"] = _condition_repr(getattr(m, "_args", None), getattr(m, "_kwargs", None))
        except Exception as e:  # noqa: BLE001
            sig["module:state_dict_keys"] = f"raised {type(e).__name__}"
    slots = getattr(type(obj), "__slots__", None)
    if slots:
        for s in slots:
            v = getattr(obj, s, None)
            if isinstance(v, (bool, int, float, str, type(None))):
                sig["attr:" + s] = v
    return sig
