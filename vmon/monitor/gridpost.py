r"""Postconditions of the grid derivation methods (C03), installed as contracts on the real ``Grid``.

All geometry is evaluated in float64 from the attributes the input and output grids *store*
(size, spacing, center, direction) and from the documented meaning of the call's arguments.

"""

from __future__ import annotations

import math
from typing import Any, Optional

import numpy as np

from .contracts import Installed

EPS = 1.2e-7
K = 64.0


def attrs(g):
    n = np.array([float(k) for k in g.size()])
    s = g.spacing().detach().double().numpy()
    c = g.center().detach().double().numpy()
    R = g.direction().detach().double().numpy()
    o = c - (R * s) @ ((n - 1) / 2)
    return n, s, c, R, o


def world_tol(n, s, c, R):
    return K * EPS * (np.abs(c) + np.abs(R * s) @ (n / 2 + 1)) + 1e-9


def as_list(x, D, name="arg"):
    import torch

    if isinstance(x, torch.Tensor):
        x = x.tolist()
    if isinstance(x, (int, float, np.integer, np.floating)):
        return [x] * D
    x = list(x)
    if len(x) == 1 and isinstance(x[0], (list, tuple, torch.Tensor, torch.Size)):
        return as_list(x[0], D)
    return x


class GridPost:
    r"""Installs the postconditions; reports to the :class:`vmon.core.Ctx` returned by ``get_ctx()``."""

    METHODS = [
        "resize", "reshape", "resample", "downsample", "upsample", "pyramid", "crop", "pad",
        "center_crop", "center_pad", "narrow", "region_of_interest", "pool",
    ]

    COPY_ACCESSORS = ["align_corners", "clone", "__deepcopy__"]

    @staticmethod
    def _snap(args, kwargs):
        g = args[0]
        return {"size": [float(x) for x in g._size], "attrs": [a.tolist() for a in attrs(g)], "flag": g.align_corners(), "tensors": [id(g._size), id(g._center), id(g._spacing), id(g._direction)]}

    @classmethod
    def _snap_if_copying(cls, args, kwargs):
        # the getter form (no argument) of align_corners() is called all the time inside the library: not snapshotted
        if len(args) == 1 and not kwargs:
            return None
        return cls._snap(args, kwargs)

    def post_copy_accessor(self, name):
        def post(ctx, g, args, kw, r):
            from deepali.core.grid import Grid

            if not isinstance(r, Grid) or r is g:
                return  # getter form
            if name in ("clone", "__deepcopy__"):
                ctx.true(f"{name}:copy_equals_source_including_internal_size", r == g and r.align_corners() == g.align_corners() and [float(x) for x in r._size] == [float(x) for x in g._size], op=name, got=[float(x) for x in r._size], want=[float(x) for x in g._size], flags=[r.align_corners(), g.align_corners()])
                ctx.true(f"{name}:copy_owns_its_tensors", not ({id(r._size), id(r._center), id(r._spacing), id(r._direction)} & {id(g._size), id(g._center), id(g._spacing), id(g._direction)}), op=name)

        return post

    def __init__(self, get_ctx):
        self.get_ctx = get_ctx
        self.inst = Installed()
        self.wrappers = {}

    def install(self):
        from deepali.core.grid import Grid
        from deepali.core.cube import Cube

        for name in self.METHODS:
            post = getattr(self, "post_" + name)
            self.wrappers[name] = self.inst.wrap(Grid, name, pre=self._snap, post=self._adapt(name, post))
        self.wrappers["Cube.grid"] = self.inst.wrap(Cube, "grid", post=self._adapt("Cube.grid", self.post_cube_grid))
        # accessors that return a modified copy when given an argument, and copies: the source stays as it was
        for name in self.COPY_ACCESSORS:
            pre = self._snap_if_copying if name == "align_corners" else self._snap
            self.wrappers[name] = self.inst.wrap(Grid, name, pre=pre, post=self._adapt(name, self.post_copy_accessor(name)))
        return self

    def uninstall(self):
        self.inst.uninstall()

    def counters(self):
        out = {}
        for name, w in self.wrappers.items():
            st = w._vmon_state
            out[name] = {"evaluations": st["evaluations"], "post_errors": st["post_errors"], "last_post_error": st["last_post_error"]}
        return out

    def _adapt(self, name, post):
        def run(args, kwargs, result, exc, snap):
            ctx = self.get_ctx()
            if ctx is None:
                return
            ctx.count("contract/Grid." + name if "." not in name else "contract/" + name)
            if snap is not None and hasattr(args[0], "_size"):
                # whatever was derived (or raised): the grid it was derived from is exactly what it was
                now = self._snap(args, kwargs)
                ctx.true(f"{name}:source_grid_unchanged", now["size"] == snap["size"] and now["attrs"] == snap["attrs"] and now["flag"] == snap["flag"], op=name, before=[snap["size"], snap["flag"]], after=[now["size"], now["flag"]])
            if exc is not None:
                return  # the raise itself is observed (and classified) by the workload's guard
            post(ctx, args[0], args[1:], kwargs, result)

        return run

    # ------------------------------------------------------------------ helpers
    def _same_frame(self, ctx, op, g, r, **info):
        n, s, c, R, o = attrs(g)
        n2, s2, c2, R2, o2 = attrs(r)
        ctx.close(f"{op}:direction_unchanged", R2, R, 0.0, op=op, **info)
        return (n, s, c, R, o), (n2, s2, c2, R2, o2)

    def _resize_family(self, ctx, op, g, r, ac, **info):
        (n, s, c, R, o), (n2, s2, c2, R2, o2) = self._same_frame(ctx, op, g, r, **info)
        tol = world_tol(n, s, c, R)
        ctx.close(f"{op}:center_unchanged", c2, c, tol, op=op, **info)
        live = n > 0
        if ac:
            # corner sample positions unchanged  <=>  first and last sample keep their world position
            ok_axes = (n > 1) & (n2 > 1)
            first_old, first_new = o, o2
            last_old = o + (R * s) @ (n - 1)
            last_new = o2 + (R2 * s2) @ (n2 - 1)
            if ok_axes.all():
                ctx.close(f"{op}:first_corner_sample_unchanged", first_new, first_old, tol, op=op, **info)
                ctx.close(f"{op}:last_corner_sample_unchanged", last_new, last_old, tol, op=op, **info)
            ctx.close(f"{op}:corner_extent_unchanged", (s2 * (n2 - 1))[ok_axes], (s * (n - 1))[ok_axes], K * EPS * (s * n)[ok_axes], op=op, **info)
        else:
            ctx.close(f"{op}:extent_unchanged", (s2 * n2)[live], (s * n)[live], K * EPS * (s * n)[live], op=op, **info)
            # cube faces unchanged: centre +- extent/2 along each axis
            lo_old = c - (R * s) @ (n / 2)
            lo_new = c2 - (R2 * s2) @ (n2 / 2)
            ctx.close(f"{op}:cube_faces_unchanged", lo_new, lo_old, tol, op=op, **info)
        return n, n2

    def _index_family(self, ctx, op, g, r, offset, size, spacing_factor=None, **info):
        r"""Retained sample j sits at the world position of source index j*k + offset."""
        (n, s, c, R, o), (n2, s2, c2, R2, o2) = self._same_frame(ctx, op, g, r, **info)
        kf = np.ones_like(s) if spacing_factor is None else np.asarray(spacing_factor, dtype=np.float64)
        ctx.close(f"{op}:spacing", s2, s * kf, 4 * EPS * s * kf, op=op, **info)
        if size is not None:
            ctx.true(f"{op}:size", list(n2) == [float(k) for k in size], op=op, got=list(n2), want=list(size), source_size=list(n), source_internal_size=[float(k) for k in g._size], result_internal_size=[float(k) for k in r._size], offset=np.asarray(offset).tolist(), **info)
        offset = np.asarray(offset, dtype=np.float64)
        tol = world_tol(np.maximum(n, n2) + np.abs(offset), s, c, R)
        for label, j in (("first", np.zeros_like(n2)), ("last", n2 - 1)):
            new_pos = o2 + (R2 * s2) @ j
            old_pos = o + (R * s) @ (j * kf + offset)
            ctx.close(f"{op}:{label}_retained_sample_keeps_world_position", new_pos, old_pos, tol, op=op, offset=offset.tolist(), **info)
        ctx.true(f"{op}:align_corners_kept", r.align_corners() == g.align_corners(), op=op, **info)

    # ------------------------------------------------------------ resize family
    def post_resize(self, ctx, g, args, kw, r):
        D = g.ndim
        ac = kw.get("align_corners")
        ac = g.align_corners() if ac is None else ac
        size = as_list(args if len(args) > 1 else args[0], D)
        n, n2 = self._resize_family(ctx, "resize", g, r, ac)
        ctx.true("resize:size", [int(k) for k in n2] == [int(k) for k in size], got=list(n2), want=size)

    def post_reshape(self, ctx, g, args, kw, r):
        D = g.ndim
        ac = kw.get("align_corners")
        ac = g.align_corners() if ac is None else ac
        shape = as_list(args if len(args) > 1 else args[0], D)
        n, n2 = self._resize_family(ctx, "reshape", g, r, ac)
        ctx.true("reshape:size", [int(k) for k in n2] == [int(k) for k in shape[::-1]], got=list(n2), want=shape[::-1])

    def post_resample(self, ctx, g, args, kw, r):
        import torch

        D = g.ndim
        (n, s, c, R, o), (n2, s2, c2, R2, o2) = self._same_frame(ctx, "resample", g, r)
        ctx.close("resample:center_unchanged", c2, c, 0.0)
        sp = args if len(args) > 1 else args[0]
        if isinstance(sp, str):
            sp = float(s.min()) if sp == "min" else float(s.max())
        want = np.array(as_list(sp, D), dtype=np.float64)
        ctx.close("resample:spacing_as_requested", s2, want, 4 * EPS * want)
        # documented: extent preserved, possibly greater by less than one new sample
        live = n > 0
        ext, ext2 = s * n, s2 * n2
        min_size = kw.get("min_size", 1)
        clamped = ext / want < min_size
        t = K * EPS * ext + 1e-4 * want  # 1e-4 sample slack for ratios that are integers up to rounding
        ctx.true("resample:extent_not_smaller", bool(((ext2 >= ext - t) | ~live).all()), old=ext.tolist(), new=ext2.tolist())
        ctx.true("resample:extent_less_than_one_sample_larger", bool(((ext2 < ext + want + t) | clamped | ~live).all()), old=ext.tolist(), new=ext2.tolist(), spacing=want.tolist())

    def _levels_args(self, args, kw, names):
        vals = dict(zip(names, args))
        vals.update(kw)
        return vals

    def post_downsample(self, ctx, g, args, kw, r):
        a = self._levels_args(args, kw, ["levels", "dims", "min_size", "align_corners"])
        ac = a.get("align_corners")
        ac = g.align_corners() if ac is None else ac
        n, n2 = self._resize_family(ctx, "downsample", g, r, ac)
        levels = a.get("levels", 1)
        dims = a.get("dims") or range(g.ndim)
        dims = [self._dim(d) for d in dims]
        min_size = a.get("min_size", 1)
        gs = g._size.detach().double().numpy()
        want = n.copy()
        for d in dims:
            v = gs[d] / 2**levels
            if v >= min_size:
                want[d] = math.ceil(v - 1e-9) if v > 0 else 0
        ctx.true("downsample:size", list(n2) == list(want), got=list(n2), want=list(want), levels=levels)

    def post_upsample(self, ctx, g, args, kw, r):
        a = self._levels_args(args, kw, ["levels", "dims", "align_corners"])
        ac = a.get("align_corners")
        ac = g.align_corners() if ac is None else ac
        n, n2 = self._resize_family(ctx, "upsample", g, r, ac)
        levels = a.get("levels", 1)
        dims = a.get("dims") or range(g.ndim)
        dims = [self._dim(d) for d in dims]
        gs = g._size.detach().double().numpy()
        want = n.copy()
        for d in dims:
            v = gs[d] * 2**levels
            want[d] = math.ceil(v - 1e-9) if v > 0 else 0
        ctx.true("upsample:size", list(n2) == list(want), got=list(n2), want=list(want), levels=levels)

    @staticmethod
    def _dim(d):
        if isinstance(d, str):
            return {"x": 0, "y": 1, "z": 2, "t": 3}[d.lower()]
        return int(d)

    def post_pyramid(self, ctx, g, args, kw, r):
        a = self._levels_args(args, kw, ["levels", "dims", "min_size"])
        levels = a["levels"]
        ctx.true("pyramid:levels", sorted(r.keys()) == list(range(levels + 1)), got=sorted(r.keys()), levels=levels)
        ac = g.align_corners()
        prev = None
        for lvl in sorted(r.keys()):
            self._resize_family(ctx, "pyramid", g, r[lvl], ac, level=lvl)
            ctx.true("pyramid:same_domain_as", bool(r[lvl].same_domain_as(g)) and bool(r[0].same_domain_as(r[lvl])), level=lvl)
            n2 = [int(k) for k in r[lvl].size()]
            if prev is not None:
                ctx.true("pyramid:sizes_do_not_grow", all(x <= y for x, y in zip(n2, prev)), level=lvl, got=n2, prev=prev)
            prev = n2

    # ------------------------------------------------------------- index family
    def _num(self, g, args, kw, what):
        D = g.ndim
        margin, num = kw.get("margin"), kw.get("num")
        if len(args) == 1 and not isinstance(args[0], int):
            margin = args[0]
        elif args:
            margin = args
        if isinstance(margin, int):
            num = margin
        elif margin is not None:
            num = [k for m in as_list(margin, D) for k in (m, m)]
        if isinstance(num, int):
            num = [num] * (2 * D)
        num = [int(k) for k in num]
        num = num + [0] * (2 * D - len(num))
        return np.array(num[::2], dtype=np.float64), np.array(num[1::2], dtype=np.float64)

    def post_crop(self, ctx, g, args, kw, r):
        left, right = self._num(g, args, kw, "crop")
        n = np.array([float(k) for k in g.size()])
        want = np.maximum(n - left - right, 1)
        self._index_family(ctx, "crop", g, r, left, want)

    def post_pad(self, ctx, g, args, kw, r):
        left, right = self._num(g, args, kw, "pad")
        n = np.array([float(k) for k in g.size()])
        want = np.maximum(n + left + right, 1)
        self._index_family(ctx, "pad", g, r, -left, want)

    def post_center_crop(self, ctx, g, args, kw, r):
        D = g.ndim
        size = as_list(args if len(args) > 1 else args[0], D)
        n = np.array([float(k) for k in g.size()])
        want = np.minimum(n, np.array(size, dtype=np.float64))
        n2, s2, c2, R2, o2 = attrs(r)
        nn, s, c, R, o = attrs(g)
        # the offset actually used, recovered from the result; must be an integer "centred" choice
        off = np.linalg.solve(R * s, o2 - o)
        ctx.close("center_crop:integer_offset", off, np.round(off), 1e-3)
        half = (n - want) / 2
        ctx.true("center_crop:centred", bool(((np.round(off) >= np.floor(half)) & (np.round(off) <= np.ceil(half))).all()), offset=off.tolist(), half=half.tolist())
        self._index_family(ctx, "center_crop", g, r, np.round(off), want)

    def post_center_pad(self, ctx, g, args, kw, r):
        D = g.ndim
        size = as_list(args if len(args) > 1 else args[0], D)
        n = np.array([float(k) for k in g.size()])
        want = np.maximum(n, np.array(size, dtype=np.float64))
        n2, s2, c2, R2, o2 = attrs(r)
        nn, s, c, R, o = attrs(g)
        off = np.linalg.solve(R * s, o2 - o)
        ctx.close("center_pad:integer_offset", off, np.round(off), 1e-3)
        half = (want - n) / 2
        ctx.true("center_pad:centred", bool(((-np.round(off) >= np.floor(half)) & (-np.round(off) <= np.ceil(half))).all()), offset=off.tolist(), half=half.tolist())
        self._index_family(ctx, "center_pad", g, r, np.round(off), want)

    def post_narrow(self, ctx, g, args, kw, r):
        a = self._levels_args(args, kw, ["dim", "start", "length"])
        n = np.array([float(k) for k in g.size()])
        off = np.zeros_like(n)
        off[a["dim"]] = a["start"]
        want = n.copy()
        want[a["dim"]] = a["length"]
        self._index_family(ctx, "narrow", g, r, off, want)

    def post_region_of_interest(self, ctx, g, args, kw, r):
        D = g.ndim
        a = self._levels_args(args, kw, ["start", "size"])
        start = np.array(as_list(a["start"], D), dtype=np.float64)
        size = np.array(as_list(a["size"], D), dtype=np.float64)
        self._index_family(ctx, "region_of_interest", g, r, start, size)

    def post_pool(self, ctx, g, args, kw, r):
        D = g.ndim
        a = self._levels_args(args, kw, ["kernel_size", "stride", "padding", "dilation", "ceil_mode"])
        ks = np.array(as_list(a["kernel_size"], D), dtype=np.float64)
        n = np.array([float(k) for k in g.size()])
        want = np.ceil(n / ks) if a.get("ceil_mode", False) else np.floor(n / ks)
        self._index_family(ctx, "pool", g, r, (ks - 1) / 2, want, spacing_factor=ks)

    # --------------------------------------------------------------- Cube.grid
    def post_cube_grid(self, ctx, cube, args, kw, r):
        ext = cube.extent().detach().double().numpy()
        c = cube.center().detach().double().numpy()
        R = cube.direction().detach().double().numpy()
        n2, s2, c2, R2, o2 = attrs(r)
        ac = r.align_corners()
        ctx.close("Cube.grid:direction", R2, R, 0.0)
        ctx.close("Cube.grid:center", c2, c, 0.0)
        got = s2 * (n2 - 1 if ac else n2)
        ctx.close("Cube.grid:cube_extent_reproduced", got, ext, K * EPS * ext)
        # the requested size (x, ...) or shape (..., x) is the size of the returned grid
        size = kw.get("size", args[0] if args else None)
        if size is not None and not isinstance(size, (int, float)):
            ctx.true("Cube.grid:requested_size", [int(k) for k in r.size()] == [int(k) for k in size], got=[int(k) for k in r.size()], want=[int(k) for k in size])
        if kw.get("shape") is not None and not isinstance(kw["shape"], (int, float)):
            ctx.true("Cube.grid:requested_shape", [int(k) for k in r.shape] == [int(k) for k in kw["shape"]], got=[int(k) for k in r.shape], want=[int(k) for k in kw["shape"]])
