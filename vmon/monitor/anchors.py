r"""Line coverage of the functions a property is anchored in, via ``sys.monitoring`` (Python 3.12).

LINE events are enabled *locally* for the code objects of the anchored functions only, so the
overhead on everything else is nil. The evidence lists executed/total lines per anchor; an anchor
never entered makes the run inconclusive (the monitor did not see the mechanism at work).

"""

from __future__ import annotations

import importlib
import sys
from typing import Dict, List, Set, Tuple

TOOL_ID = 3  # sys.monitoring.PROFILER_ID + 1 … any free id


class AnchorCoverage:
    def __init__(self, anchors: List[Tuple[str, str]]):
        self.codes: Dict[object, str] = {}
        self.hits: Dict[str, Set[int]] = {}
        self.totals: Dict[str, int] = {}
        self.missing: List[str] = []
        self.enabled = False
        for modname, qualname in anchors:
            label = f"{modname}:{qualname}"
            try:
                obj = importlib.import_module(modname)
                for part in qualname.split("."):
                    obj = getattr(obj, part)
                obj = getattr(obj, "__wrapped__", obj)
                if isinstance(obj, (staticmethod, classmethod)):
                    obj = obj.__func__
                if isinstance(obj, property):
                    obj = obj.fget
                code = obj.__code__
            except Exception:  # noqa: BLE001
                self.missing.append(label)
                continue
            self.codes[code] = label
            self.hits[label] = set()
            lines = {ln for (_, _, ln) in code.co_lines() if ln is not None}
            lines.discard(code.co_firstlineno)
            self.totals[label] = len(lines)

    def start(self) -> None:
        if not hasattr(sys, "monitoring") or not self.codes:
            return
        mon = sys.monitoring
        try:
            mon.use_tool_id(TOOL_ID, "vmon-anchors")
        except ValueError:
            return
        mon.register_callback(TOOL_ID, mon.events.LINE, self._on_line)
        for code in self.codes:
            mon.set_local_events(TOOL_ID, code, mon.events.LINE)
        self.enabled = True

    def _on_line(self, code, line):
        label = self.codes.get(code)
        if label is not None:
            self.hits[label].add(line)
        # keep receiving events for every line of this code object
        return None

    def stop(self) -> None:
        if not self.enabled:
            return
        mon = sys.monitoring
        for code in self.codes:
            mon.set_local_events(TOOL_ID, code, 0)
        mon.register_callback(TOOL_ID, mon.events.LINE, None)
        mon.free_tool_id(TOOL_ID)
        self.enabled = False

    def dump(self) -> dict:
        return {
            "hits": {k: sorted(v) for k, v in self.hits.items()},
            "totals": self.totals,
            "missing": self.missing,
        }
