r"""CLI: ``python -m vmon.run C07 --tier quick|thorough`` — the command registered in MANIFEST.json.

Exit codes: 0 held on everything observed (known findings are printed), 1 violation not listed in
known_findings.json (``VIOLATION property=<id> replay=<path>``), 2 inconclusive (a watchdog fired, a
shard died, a mandatory bucket or anchor was never observed).

"""

from __future__ import annotations

import argparse
import importlib
import json
import os
import shutil
import subprocess
import sys
import tempfile
import time
from collections import Counter

HERE = os.path.dirname(os.path.dirname(os.path.abspath(__file__)))
EVIDENCE_DIR = os.path.join(HERE, "evidence")
KNOWN_FILE = os.path.join(HERE, "known_findings.json")
NPROC = int(os.environ.get("VMON_SHARDS", "16"))


def load_known(prop: str):
    try:
        with open(KNOWN_FILE) as f:
            entries = json.load(f)["findings"]
    except FileNotFoundError:
        entries = []
    return [e for e in entries if e.get("property") == prop]


def merge(results: list) -> dict:
    agg = {
        "evaluations": 0,
        "items_run": 0,
        "buckets": Counter(),
        "counters": Counter(),
        "nontrivial": set(),
        "samples": [],
        "margins": {},
        "margin_at": {},
        "exceptions": Counter(),
        "violations": [],
        "violation_counts": Counter(),
        "inconclusive": [],
        "notes": {},
        "anchor_hits": {},
        "anchor_totals": {},
        "anchor_missing": set(),
        "shard_wall_s": [],
    }
    for r in results:
        agg["evaluations"] += r["evaluations"]
        agg["items_run"] += r["items_run"]
        agg["buckets"].update(r["buckets"])
        agg["counters"].update(r["counters"])
        agg["nontrivial"].update(r["nontrivial"])
        if len(agg["samples"]) < 4:
            agg["samples"].extend(r["samples"][: 4 - len(agg["samples"])])
        for k, v in r["margins"].items():
            if v > agg["margins"].get(k, -1.0):
                agg["margins"][k] = v
                agg["margin_at"][k] = r.get("margin_at", {}).get(k)
        agg["exceptions"].update(r["exceptions"])
        agg["violations"].extend(r["violations"])
        agg["violation_counts"].update(r["violation_counts"])
        agg["inconclusive"].extend(r["inconclusive"])
        for k, v in r["notes"].items():
            if isinstance(v, (int, float)) and isinstance(agg["notes"].get(k, v), (int, float)):
                agg["notes"][k] = max(agg["notes"].get(k, v), v)
            else:
                agg["notes"].setdefault(k, v)
        a = r.get("anchors", {})
        for k, v in a.get("hits", {}).items():
            agg["anchor_hits"].setdefault(k, set()).update(v)
        agg["anchor_totals"].update(a.get("totals", {}))
        agg["anchor_missing"].update(a.get("missing", []))
        agg["shard_wall_s"].append(round(r.get("wall_s", 0.0), 2))
    return agg


def main(argv=None) -> int:
    ap = argparse.ArgumentParser()
    ap.add_argument("property")
    ap.add_argument("--tier", default=os.environ.get("VERIF_TIER", "quick"), choices=["quick", "thorough"])
    ap.add_argument("--seed", type=int, default=int(os.environ.get("VERIF_SEED", "0")))
    ap.add_argument("--budget", type=float, default=None, help="wall-clock watchdog per shard (s)")
    ap.add_argument("--no-evidence", action="store_true", help="development: do not rewrite evidence file")
    args = ap.parse_args(argv)
    prop = args.property.upper()
    t0 = time.monotonic()
    mod = importlib.import_module(f"vmon.checks.{prop.lower()}")
    items = mod.plan(args.tier, args.seed)
    nshards = max(1, min(NPROC, len(items)))
    budget = args.budget or getattr(mod, "BUDGET", {"quick": 600, "thorough": 5400})[args.tier]
    tmp = tempfile.mkdtemp(prefix=f"vmon-{prop}-")
    env = dict(os.environ)
    env["PYTHONHASHSEED"] = "0"
    env["OMP_NUM_THREADS"] = "1"
    env["MKL_NUM_THREADS"] = "1"
    env["PYTHONWARNINGS"] = "ignore"
    src = os.path.abspath(env.get("VMON_REPO_SRC", "/repo/src"))
    env["PYTHONPATH"] = os.pathsep.join([HERE, src])
    # hooks in the repository (none at present) would be enabled by this guard
    env["BIOMEDIA_DEEPALI_VERIF"] = "1"
    procs = []
    results = []
    inconclusive = []
    try:
        for s in range(nshards):
            shard_items = items[s::nshards]
            fi = os.path.join(tmp, f"items{s}.json")
            fo = os.path.join(tmp, f"out{s}.json")
            with open(fi, "w") as f:
                json.dump(shard_items, f)
            log = open(os.path.join(tmp, f"log{s}.txt"), "w")
            p = subprocess.Popen(
                [sys.executable, "-m", "vmon.shard", prop, args.tier, str(args.seed), fi, fo, str(budget)],
                cwd=HERE,
                env=env,
                stdout=log,
                stderr=subprocess.STDOUT,
            )
            procs.append((s, p, fo, log))
        hard_deadline = time.monotonic() + budget * 1.5 + 120
        for s, p, fo, log in procs:
            try:
                rc = p.wait(timeout=max(1.0, hard_deadline - time.monotonic()))
            except subprocess.TimeoutExpired:
                p.kill()
                p.wait()
                inconclusive.append(f"watchdog: shard {s} killed after hard deadline")
                continue
            finally:
                log.close()
            if rc != 0 or not os.path.exists(fo):
                with open(os.path.join(tmp, f"log{s}.txt")) as f:
                    tail = f.read()[-1500:]
                inconclusive.append(f"shard {s} died rc={rc}: {tail}")
                continue
            with open(fo) as f:
                results.append(json.load(f))
    finally:
        for _, p, _, _ in procs:
            if p.poll() is None:
                p.kill()
        shutil.rmtree(tmp, ignore_errors=True)

    agg = merge(results)
    inconclusive.extend(agg["inconclusive"])

    # reach counters: mandatory buckets and anchors
    for b in getattr(mod, "mandatory", lambda tier: [])(args.tier):
        if agg["buckets"].get(b, 0) == 0:
            inconclusive.append(f"mandatory bucket never observed: {b}")
    for a in agg["anchor_missing"]:
        inconclusive.append(f"anchor not found in source: {a}")
    anchors = {}
    for label, total in agg["anchor_totals"].items():
        hit = len(agg["anchor_hits"].get(label, ()))
        anchors[label] = {"lines_executed": hit, "lines_total": total}
        if hit == 0 and label not in getattr(mod, "OPTIONAL_ANCHORS", ()):
            inconclusive.append(f"anchor never executed: {label}")

    # known findings
    known = load_known(prop)
    open_keys = {e["key"]: e for e in known if e.get("status") == "open"}
    listed, unlisted = [], []
    for v in agg["violations"]:
        (listed if v["key"] in open_keys else unlisted).append(v)
    printed = set()
    for v in listed:
        if v["key"] not in printed:
            printed.add(v["key"])
            print(open_keys[v["key"]]["line"])
    not_observed = [k for k in open_keys if k not in printed]

    replay_paths = []
    if unlisted:
        rdir = os.path.join(EVIDENCE_DIR, "replays")
        os.makedirs(rdir, exist_ok=True)
        seen = Counter()
        for v in unlisted:
            seen[v["key"]] += 1
            if seen[v["key"]] > 1 and len(replay_paths) >= 40:
                continue
            safe = "".join(c if c.isalnum() or c in "-_." else "_" for c in v["key"])[:80]
            path = os.path.join(rdir, f"{prop}-{args.tier}-s{args.seed}-{safe}-{seen[v['key']]}.json")
            with open(path, "w") as f:
                json.dump(v, f, indent=1)
            replay_paths.append(path)
            print(f"VIOLATION property={prop} replay={path}")
            info = v.get("info", {})
            print(f"  check={v['check']} key={v['key']} item={json.dumps(v['item'])} info={json.dumps(info)[:600]}")

    wall = time.monotonic() - t0
    unlisted_total = sum(n for k, n in agg["violation_counts"].items() if k not in open_keys)
    verdict = "violated" if unlisted else ("inconclusive" if inconclusive else "held-on-observed")
    evidence = {
        "property_id": prop,
        "tier": args.tier,
        "seed": args.seed,
        "level": "exploration",
        "coverage": {
            "evaluations": agg["evaluations"],
            "distinct_nontrivial": len(agg["nontrivial"]),
            "rule": getattr(mod, "RULE", ""),
            "samples": agg["samples"] or [{"item": it} for it in items[:2]],
            "exhaustive": False,
            "work_items": len(items),
            "work_items_run": agg["items_run"],
            "buckets": dict(sorted(agg["buckets"].items())),
            "oracle_evaluations_by_relation": {
                k[5:]: v for k, v in sorted(agg["counters"].items()) if k.startswith("eval/")
            },
            "monitor_counters": {k: v for k, v in sorted(agg["counters"].items()) if not k.startswith("eval/")},
            "max_error_over_tolerance": {k: float(f"{v:.3g}") for k, v in sorted(agg["margins"].items())},
            "anchors": anchors,
            "exceptions": dict(sorted(agg["exceptions"].items())),
            "notes": agg["notes"],
            "known_findings_reproduced": sorted(printed),
            "known_findings_not_observed_this_run": sorted(not_observed),
            "violation_keys": {k: v for k, v in sorted(agg["violation_counts"].items())},
            "verdict": verdict,
            "inconclusive_reasons": inconclusive[:20],
            "shards": nshards,
            "shard_wall_s": agg["shard_wall_s"],
        },
        "assumptions": getattr(mod, "ASSUMPTIONS", []),
        "wall_s": round(wall, 2),
        "violations": int(unlisted_total),
    }
    if not args.no_evidence:
        os.makedirs(EVIDENCE_DIR, exist_ok=True)
        with open(os.path.join(EVIDENCE_DIR, f"{prop}.json"), "w") as f:
            json.dump(evidence, f, indent=1, sort_keys=False)
            f.write("\n")

    print(
        f"{prop} tier={args.tier} seed={args.seed}: {verdict}; items={agg['items_run']}/{len(items)} "
        f"evaluations={agg['evaluations']} distinct_nontrivial={len(agg['nontrivial'])} "
        f"known={len(printed)} unlisted_violations={unlisted_total} wall={wall:.1f}s"
    )
    if agg["margins"]:
        worst = sorted(agg["margins"].items(), key=lambda kv: -kv[1])[:5]
        print("  largest error/tolerance:", ", ".join(f"{k}={v:.3g}" for k, v in worst))
        if os.environ.get("VMON_DEBUG"):
            for k, v in worst:
                print("   ", k, f"{v:.3g}", json.dumps(agg["margin_at"].get(k))[:400])
    if unlisted:
        return 1
    if inconclusive:
        for r in inconclusive[:10]:
            print(f"INCONCLUSIVE property={prop} reason={r[:500]}")
        return 2
    return 0


if __name__ == "__main__":
    sys.exit(main())
