r"""C04 — image operations move voxel data and sampling grid in lock-step."""

from __future__ import annotations

import numpy as np

from .. import gen
from ..oracle.coords import GRID, WORLD
from ..oracle.ramp import Ramp, Validity, grid_indices, world_positions

PROPERTY = "C04"
RULE = (
    "Each case builds a batch (N in 1..3, C in 1..2) of images with *distinct* oriented per-image grids "
    "(shared size and spacing, different centre/direction) whose intensities are random linear ramps of world "
    "position, applies every spatial operation of ImageBatch / Image / FlowFields (resize, resample, downsample, "
    "upsample, pyramid, crop, pad, center_crop, center_pad, region_of_interest, narrow, avg_pool, conv with 1-D "
    "and N-D kernels and every padding mode, sample(grid|grids)) with random valid arguments, and chains of up to "
    "3 operations; the result must carry one grid per item with the data's shape, and its values must equal the "
    "ramp evaluated (float64) at the world positions of the *returned* grid wherever the operation's support lies "
    "inside the field of view (tracked through chains); index-only operations are additionally run on noise "
    "images and must return bit-identical values at identical world positions. Non-trivial: rotated/anisotropic "
    "grids; distinct = hash of grids, ramp and call arguments."
)
ASSUMPTIONS = [
    "linear interpolation, normalised symmetric smoothing and average pooling reproduce a linear ramp exactly inside the FOV",
    "values compared only where the tracked support of the operation chain lies inside every intermediate grid",
    "tolerance 2e-4 of the ramp range (float32 data and coordinates); smallest fault of interest is half a sample step >= 1e-2",
]
ANCHORS = [
    ("deepali.data.image", "ImageBatch.resize"),
    ("deepali.data.image", "ImageBatch.resample"),
    ("deepali.data.image", "ImageBatch.downsample"),
    ("deepali.data.image", "ImageBatch.upsample"),
    ("deepali.data.image", "ImageBatch.pyramid"),
    ("deepali.data.image", "ImageBatch.crop"),
    ("deepali.data.image", "ImageBatch.pad"),
    ("deepali.data.image", "ImageBatch.center_crop"),
    ("deepali.data.image", "ImageBatch.center_pad"),
    ("deepali.data.image", "ImageBatch.region_of_interest"),
    ("deepali.data.image", "ImageBatch.narrow"),
    ("deepali.data.image", "ImageBatch.avg_pool"),
    ("deepali.data.image", "ImageBatch.conv"),
    ("deepali.data.image", "ImageBatch.sample"),
    ("deepali.data.flow", "FlowFields.sample"),
    ("deepali.core.image", "grid_resize"),
    ("deepali.core.image", "grid_resample"),
    ("deepali.core.image", "downsample"),
    ("deepali.core.image", "upsample"),
    ("deepali.core.image", "crop"),
    ("deepali.core.image", "pad"),
    ("deepali.core.image", "center_crop"),
    ("deepali.core.image", "center_pad"),
    ("deepali.core.image", "region_of_interest"),
    ("deepali.core.image", "conv"),
]
N_CASES = {"quick": 150, "thorough": 5000}
BUDGET = {"quick": 400, "thorough": 3600}

OPS = [
    "resize", "resample", "downsample", "upsample", "pyramid", "crop", "pad", "center_crop", "center_pad",
    "region_of_interest", "narrow", "avg_pool", "conv1d", "convnd", "sample_grid", "sample_grids",
]
INDEX_OPS = {"crop", "pad", "center_crop", "center_pad", "region_of_interest", "narrow"}
TOL = 2e-4


def plan(tier, seed):
    return [["probe", "downsample_upsample_odd"]] + [["case", i] for i in range(N_CASES[tier])]


def mandatory(tier):
    return [f"op/{o}" for o in OPS] + ["chain", "type/ImageBatch", "type/Image", "type/FlowFields", "type/FlowField", "subject/fractional_internal_size", "narrow/negative_dim", "narrow/negative_start", "compared_samples", "pyramid/align_corners=None", "pyramid/align_corners=True", "pyramid/align_corners=False", "pyramid/spacing"] + [f"data_transforms/{n}" for n in ("AvgPoolImage", "CenterCropImage", "CenterPadImage", "NarrowImage", "ResampleImage", "ResizeImage", "config")]


# ---------------------------------------------------------------------------------------------
SINGLE = ("Image", "FlowField")


class Subject:
    r"""A batch under test together with what the oracle knows about it."""

    def __init__(self, batch, ramps, valid, kind):
        self.batch = batch  # ImageBatch / FlowFields / Image
        self.ramps = ramps  # one Ramp per item
        self.valid = valid  # one Validity per item
        self.kind = kind


def items_of(obj):
    r"""(data (N,C,...), grids) of an ImageBatch / Image."""
    from deepali.data.image import Image, ImageBatch

    if isinstance(obj, ImageBatch):
        return obj.tensor(), obj.grids()
    if isinstance(obj, Image):
        return obj.tensor().unsqueeze(0), (obj.grid(),)
    return None, None


def check_result(ctx, op, res, subj: Subject, new_valid, info, item_map=None, chan=None):
    r"""Structure + ramp oracle on a returned object. ``item_map[j]`` = input item held by output item j."""
    from deepali.data.image import Image, ImageBatch

    ok = ctx.true("result_is_image_type", isinstance(res, (ImageBatch, Image)), key=f"{op}/result_type", op=op, got=type(res).__name__, **info)
    if not ok:
        return 0
    if subj.kind in ("FlowFields", "FlowField"):
        # vectors were given in world units: the result must still say so (its values are checked as world ramps below)
        from deepali.core.grid import Axes

        ctx.true("flow_result_keeps_axes", getattr(res, "axes", lambda: None)() == Axes.WORLD, key=f"{op}/flow_axes", op=op, got=str(getattr(res, "axes", lambda: None)()), **info)
    data, grids = items_of(res)
    N = data.shape[0]
    if item_map is None:
        item_map = list(range(N))
    ok = ctx.true("one_grid_per_item", len(grids) == N, key=f"{op}/grid_count", op=op, n_grids=len(grids), batch=N, **info)
    if not ok:
        return 0
    compared = 0
    for j in range(min(N, len(item_map))):
        g = grids[j]
        i = item_map[j]
        if not ctx.true("grid_shape_is_data_shape", tuple(g.shape) == tuple(data.shape[2:]), key=f"{op}/grid_shape", op=op, grid=list(g.shape), data=list(data.shape), **info):
            continue
        ref = gen.ref_of_grid(g)
        w = world_positions(ref)
        mask = new_valid[i].mask(w)
        if not mask.any():
            ctx.count("empty_fov")
            continue
        want = subj.ramps[i](w)  # (C, ...)
        if chan is not None:
            want = want[chan]
        got = data[j].double().numpy()
        if got.shape != want.shape:
            ctx.true("channels_preserved", False, key=f"{op}/channels", op=op, got=list(got.shape), want=list(want.shape), **info)
            continue
        m = np.broadcast_to(mask, want.shape)
        compared += int(mask.sum())
        ctx.close("ramp_at_new_world_positions", got[m], want[m], TOL, key=f"{op}/ramp", op=op, item=j, step=subj.ramps[i].step(ref), n_compared=int(mask.sum()), **info)
    ctx.bucket("compared_samples", compared)
    return compared


def check_index_exact(ctx, op, res, noise_src, info):
    r"""Index-only operation on noise: every returned sample that coincides with a source sample equals it."""
    data, grids = items_of(res)
    sdata, sgrids = items_of(noise_src)
    if data is None or len(grids) != data.shape[0] or data.shape[0] != sdata.shape[0]:
        return
    for j, g in enumerate(grids):
        if tuple(g.shape) != tuple(data.shape[2:]):
            continue
        ref, sref = gen.ref_of_grid(g), gen.ref_of_grid(sgrids[j])
        w = world_positions(ref)
        idx = sref.points(w, WORLD, GRID)
        near = np.abs(idx - np.round(idx)).max()
        ctx.close("index_op_samples_on_source_lattice", near, 0.0, 1e-3, key=f"{op}/lattice", op=op, **info)
        ii = np.round(idx).astype(int)
        inside = ((ii >= 0) & (ii <= (sref.n - 1).astype(int))).all(axis=-1)
        if op == "narrow":
            # narrowing only selects: every returned sample is a sample of the source
            ctx.true("narrowed_samples_are_source_samples", bool(inside.all()), key=f"{op}/outside_source", op=op, n_outside=int((~inside).sum()), **info)
        if not inside.any():
            continue
        sel = tuple(ii[inside][:, d] for d in range(ref.D - 1, -1, -1))
        want = sdata[j].numpy()[(slice(None),) + sel]
        got = data[j].numpy()[:, inside]
        ctx.true("index_op_values_bit_identical", bool((got == want).all()), key=f"{op}/values", op=op, n=int(inside.sum()), n_diff=int((got != want).sum()), **info)


def support_of(op, desc, g_in):
    r"""(support half-width per axis in input samples, interpolates?) for the validity tracker."""
    D = g_in.ndim
    z = [0.0] * D
    if op in INDEX_OPS:
        return z, False
    if op in ("resize", "resample", "upsample", "sample_grid", "sample_grids"):
        return z, True
    if op == "downsample":
        return desc.get("_radius", z), True
    if op == "avg_pool":
        ks = desc["kernel_size"]
        ks = [ks] * D if isinstance(ks, int) else list(ks)[::-1]  # given in tensor order (..., X); support is per grid axis (x, ...)
        return [(k - 1) / 2 for k in ks], False
    if op in ("conv1d", "convnd"):
        return desc["_radius"], False
    raise ValueError(op)


def gaussian_radius(sigma, levels):
    from deepali.core.kernels import gaussian1d

    var = sum((sigma * 2**l) ** 2 for l in range(levels))
    k = gaussian1d(float(np.sqrt(var)))
    return int(k.shape[0] // 2)


def rand_call(rng, batch, op):
    r"""(callable, description) applying ``op`` with random valid arguments to ``batch``."""
    import torch
    from deepali.core.enum import PaddingMode

    g = batch.grids()[0] if hasattr(batch, "grids") else batch.grid()
    D = g.ndim
    n = [int(k) for k in g.size()]
    if op == "resize":
        size = [int(rng.integers(max(2, k // 2), 2 * k + 1)) for k in n]
        ac = [None, True, False][int(rng.integers(0, 3))]
        form = int(rng.integers(0, 2))
        if form == 0:
            return (lambda: batch.resize(tuple(size), align_corners=ac)), dict(op=op, size=size, align_corners=ac)
        return (lambda: batch.resize(*size, align_corners=ac)), dict(op=op, size=size, align_corners=ac, form="args")
    if op == "resample":
        s = g.spacing().double().numpy()
        kind = int(rng.integers(0, 4))
        if kind == 0:
            sp = str(rng.choice(["min", "max"]))
            return (lambda: batch.resample(sp)), dict(op=op, spacing=sp)
        if kind == 1:
            sp = float(gen.f32(s.min() * rng.choice([0.5, 0.7, 0.95, 1.05, 1.5, 2.0])))
            return (lambda: batch.resample(sp)), dict(op=op, spacing=sp)
        sp = [float(x) for x in gen.f32(s * rng.choice([0.5, 0.8, 0.97, 1.04, 1.3, 2.0], size=D))]
        return (lambda: batch.resample(tuple(sp))), dict(op=op, spacing=sp)
    if op == "downsample":
        max_l = int(np.floor(np.log2(max(min(n), 4) / 4)))
        levels = int(rng.integers(1, max(max_l, 1) + 1))
        sigma = [None, 0, 0.5][int(rng.integers(0, 3))]
        ac = [None, True, False][int(rng.integers(0, 3))]
        s_eff = 0.7355 if sigma is None else sigma
        r = gaussian_radius(s_eff, levels) if s_eff > 0 else 0
        return (lambda: batch.downsample(levels, sigma=sigma, align_corners=ac)), dict(op=op, levels=levels, sigma=sigma, align_corners=ac, _radius=[float(r)] * D)
    if op == "upsample":
        ac = [None, True, False][int(rng.integers(0, 3))]
        dims = None if rng.integers(0, 2) else sorted(rng.choice(D, size=int(rng.integers(1, D + 1)), replace=False).tolist())
        return (lambda: batch.upsample(1, dims=dims, align_corners=ac)), dict(op=op, levels=1, dims=dims, align_corners=ac)
    if op in ("crop", "pad"):
        sign = 1 if op == "crop" else -1
        meth = getattr(batch, op)
        if rng.integers(0, 2):
            ms = []
            for k in n:
                m = int(rng.integers(-2, 3))
                if sign * m > 0:
                    m = sign * min(abs(m), max((k - 3) // 2, 0))
                ms.append(m)
            if rng.integers(0, 3) == 0:
                m0 = ms[0] if all(sign * m0 * 2 < k - 2 for m0, k in zip([ms[0]] * D, n)) else 0
                return (lambda: meth(margin=m0)), dict(op=op, margin=m0)
            return (lambda: meth(margin=tuple(ms))), dict(op=op, margin=ms)
        num = []
        for k in n:
            a_, b_ = int(rng.integers(-2, 4)), int(rng.integers(-2, 4))
            if k - sign * (a_ + b_) < 3:
                a_, b_ = 0, 0
            num += [a_, b_]
        return (lambda: meth(num=tuple(num))), dict(op=op, num=num)
    if op in ("center_crop", "center_pad"):
        size = [int(rng.integers(max(k - 4, 3), k + 5)) for k in n]
        meth = getattr(batch, op)
        if rng.integers(0, 2):
            return (lambda: meth(tuple(size))), dict(op=op, size=size)
        return (lambda: meth(*size)), dict(op=op, size=size, form="args")
    if op == "region_of_interest":
        if rng.integers(0, 3) == 0:
            start = int(rng.integers(0, max(min(n) - 3, 1)))
            size = int(rng.integers(3, max(min(n) - start, 3) + 1))
            return (lambda: batch.region_of_interest(start, size)), dict(op=op, start=start, size=size)
        start = [int(rng.integers(-1, max(k - 3, 0) + 1)) for k in n]
        size = [int(rng.integers(3, k + 2)) for k in n]
        return (lambda: batch.region_of_interest(tuple(start), tuple(size))), dict(op=op, start=start, size=size)
    if op == "narrow":
        sdim = int(rng.integers(0, D))  # spatial grid axis (x=0)
        start = int(rng.integers(0, n[sdim] - 2))
        length = int(rng.integers(2, n[sdim] - start + 1))
        tdim = batch.ndim - 1 - sdim
        if rng.integers(0, 2):
            tdim -= batch.ndim  # the same axis counted from the end
        if rng.integers(0, 3) == 0:
            start -= n[sdim]  # the same first sample counted from the end (accepted by torch.narrow)
        return (lambda: batch.narrow(tdim, start, length)), dict(op=op, dim=tdim, start=start, length=length)
    if op == "avg_pool":
        if rng.integers(0, 2):
            ks = int(rng.integers(1, 4))
        else:
            ks = tuple(int(rng.integers(1, 4)) for _ in range(D))
        ceil_mode = bool(rng.integers(0, 2))
        return (lambda: batch.avg_pool(ks, ceil_mode=ceil_mode)), dict(op=op, kernel_size=ks, ceil_mode=ceil_mode)
    if op == "conv1d":
        r = int(rng.integers(1, 3))
        k = torch.tensor(np.array([1, 2, 1]) / 4 if r == 1 else np.array([1, 4, 6, 4, 1]) / 16, dtype=torch.float32)
        pad = [None, "zeros", PaddingMode.NONE, "replicate", 1, "reflect"][int(rng.integers(0, 6))]
        if pad == "reflect" and D == 3:
            pad = "replicate"
        if rng.integers(0, 3) == 0:
            kernels = [k if rng.integers(0, 2) else None for _ in range(D)]
            if all(kk is None for kk in kernels):
                kernels[0] = k
            rad = [float(r) if kk is not None else 0.0 for kk in reversed(kernels)]  # sequence is (kz, ky, kx)
            return (lambda: batch.conv(kernels, padding=pad)), dict(op=op, kernel=f"seq r={r}", which=[kk is not None for kk in kernels], padding=str(pad), _radius=rad)
        return (lambda: batch.conv(k, padding=pad)), dict(op=op, kernel=f"1d r={r}", padding=str(pad), _radius=[float(r)] * D)
    if op == "convnd":
        k1 = np.array([1, 2, 1]) / 4
        k = k1[:, None] * k1[None, :]
        if D == 3 and rng.integers(0, 2):
            k = k[:, :, None] * k1[None, None, :]
        kt = torch.tensor(k, dtype=torch.float32)
        pad = [None, "zeros", PaddingMode.NONE, "replicate", "none"][int(rng.integers(0, 5))]
        rad = [1.0] * kt.ndim + [0.0] * (D - kt.ndim)  # applied to the last (x, y[, z]) dims
        return (lambda: batch.conv(kt, padding=pad)), dict(op=op, kernel=f"{kt.ndim}d", padding=str(pad), _radius=rad)
    raise ValueError(op)


def make_subject(ctx, rng, kind):
    import torch
    from deepali.core.grid import Axes
    from deepali.data.flow import FlowFields
    from deepali.data.image import Image, ImageBatch

    D = int(rng.choice([2, 3]))
    N = 1 if kind in SINGLE else int(rng.integers(1, 4))
    C = D if kind in ("FlowFields", "FlowField") else int(rng.integers(1, 3))
    max_size = 28 if D == 2 else 14
    p0 = gen.rand_grid_params(rng, D, max_size=max_size, min_size=8 if D == 2 else 7, big_offset=False)
    derived = bool(rng.integers(0, 4) == 0)
    if derived:
        # the subject lives on pyramid-level grids: an odd size halved leaves a fractional internal size (17 -> 8.5,
        # reported 9), which every later operation has to treat as the reported size
        p0 = dict(p0, size=[2 * int(k) + 1 for k in p0["size"]])
    params, grids, refs, ramps, data = [], [], [], [], []
    for i in range(N):
        p = dict(p0)
        if i > 0:  # distinct centre and direction, same size / spacing / flag
            R, kind_ = gen.rand_direction(rng, D)
            p["direction"], p["direction_kind"] = R.tolist(), kind_
            p["route"] = "center"
            p.pop("origin", None)
            p["center"] = gen.f32(rng.normal(size=D) * 5 + 10 * i).tolist()
        g = gen.make_grid(p)
        if derived:
            g = g.downsample(1)
        ref = gen.ref_of_grid(g)
        ramp = Ramp.random(rng, C, ref)
        params.append(p)
        grids.append(g)
        refs.append(ref)
        ramps.append(ramp)
        data.append(ramp.on_grid(ref))
    t = torch.tensor(np.stack(data), dtype=torch.float32)
    if kind == "Image":
        obj = Image(t[0], grids[0])
    elif kind == "FlowField":
        from deepali.data.flow import FlowField

        obj = FlowField(t[0], grids[0], axes=Axes.WORLD)
    elif kind == "FlowFields":
        obj = FlowFields(t, grids, axes=Axes.WORLD)
    else:
        obj = ImageBatch(t, grids)
    valid = [Validity.of(r) for r in refs]
    desc = {"kind": kind, "N": N, "C": C, "grids": params, "ramps": [r.describe() for r in ramps], "derived": derived}
    return Subject(obj, ramps, valid, kind), desc, refs


def rand_target_grid(rng, ref, D):
    r"""Target grid overlapping the source domain: perturbed centre, other direction, size, spacing."""
    p = gen.rand_grid_params(rng, D, max_size=20 if D == 2 else 10, min_size=4, big_offset=False, route="center")
    ext = ref.s * ref.n
    p["center"] = gen.f32(ref.c + rng.normal(size=D) * 0.1 * ext).tolist()
    sp = np.asarray(p["size"], dtype=float)
    target_ext = ext * rng.uniform(0.4, 0.9, size=D)
    p["spacing"] = gen.f32(target_ext / sp).tolist()
    return p


def apply_op(ctx, rng, subj: Subject, op, desc0, noise=None):
    r"""Apply one operation to the subject; returns the new Subject (or None)."""
    import torch
    from deepali.data.image import Image, ImageBatch

    batch = subj.batch
    data, grids = items_of(batch)
    D = grids[0].ndim
    info = dict(subject=desc0["kind"])
    if op in ("sample_grid", "sample_grids"):
        refs = [gen.ref_of_grid(g) for g in grids]
        n_t = 1 if (op == "sample_grid" or len(grids) == 1) else len(grids)
        tp = [rand_target_grid(rng, refs[i], D) for i in range(n_t)]
        if n_t > 1:  # targets of one call must share their size
            for q in tp[1:]:
                q["size"] = tp[0]["size"]
        tg = [gen.make_grid(q) for q in tp]
        arg = tg[0] if (n_t == 1 and (op == "sample_grid")) else tg
        mode_pad = [None, "border", "zeros", 1.5][int(rng.integers(0, 4))]
        desc = dict(op=op, targets=tp, padding=str(mode_pad))
        call = lambda: batch.sample(arg, padding=mode_pad)  # noqa: E731
    elif op == "pyramid":
        n = [int(k) for k in grids[0].size()]
        max_l = int(np.floor(np.log2(max(min(n), 4) / 4))) + 1
        levels = int(rng.integers(2, max(max_l, 2) + 1))
        sigma = [None, 0][int(rng.integers(0, 2))]
        ac = [None, True, False][int(rng.integers(0, 3))]
        desc = dict(op=op, levels=levels, sigma=sigma, align_corners=ac)
        ctx.bucket(f"pyramid/align_corners={ac}")
        kw = {}
        sp0 = grids[0].spacing()
        if rng.integers(0, 2) and all(torch.allclose(g.spacing(), sp0) for g in grids):
            # spacing of the finest level given: the pyramid is built on resampled grids (extent may grow)
            kw["spacing"] = float(sp0.min()) * float(rng.choice([0.7, 1.0, 1.3, 1.9]))
            desc["spacing"] = kw["spacing"]
            ctx.bucket("pyramid/spacing")
        call = lambda: batch.pyramid(levels, sigma=sigma, align_corners=ac, **kw)  # noqa: E731
    else:
        call, desc = rand_call(rng, batch, op)
        if op == "narrow" and desc["dim"] < 0:
            ctx.bucket("narrow/negative_dim")
        if op == "narrow" and desc["start"] < 0:
            ctx.bucket("narrow/negative_start")
    pub = {k: v for k, v in desc.items() if not k.startswith("_")}
    info["call"] = pub
    ctx.nontriv(desc0, pub)
    res = None
    # NotImplementedError is an explicit "unsupported combination" (e.g. torch cannot replicate-pad the last two
    # dimensions of a 5-D tensor for a 2-D kernel on volumes): counted in the exceptions table, not a violation
    with ctx.guard(f"{desc0['kind']}.{op}", key=f"exc/{op}/" + exc_class(op, pub, grids), allow=(NotImplementedError,), **info):
        res = call()
    if res is None:
        return None
    if op == "pyramid":
        ok = ctx.true("pyramid_is_dict_of_levels", isinstance(res, dict) and sorted(res) == list(range(levels)), key="pyramid/levels", got=sorted(res) if isinstance(res, dict) else type(res).__name__, **info)
        if not ok:
            return None
        prev_grids = grids
        valid = subj.valid
        out = None
        want_ac = grids[0].align_corners() if ac is None else ac
        for lvl in sorted(res):
            _, lg = items_of(res[lvl])
            if lg is not None:
                ctx.true("pyramid_level_carries_requested_flag", all(g.align_corners() == want_ac for g in lg), key="pyramid/flag", level=lvl, got=[g.align_corners() for g in lg], **info)
                _, lg0 = items_of(res[0])
                if lvl > 0 and lg0 is not None and len(lg0) == len(lg):
                    # all levels cover the same domain: corner samples (True) or extent (False) of level 0
                    for a_, b_ in zip(lg0, lg):
                        e0 = a_.align_corners(want_ac).cube_extent().double().numpy()
                        e1 = b_.align_corners(want_ac).cube_extent().double().numpy()
                        ctx.close("pyramid_levels_share_domain", e1, e0, 1e-4 * (1 + np.abs(e0)), key="pyramid/domain", level=lvl, **info)
                        ctx.close("pyramid_levels_share_center", b_.center(), a_.center().double().numpy(), 1e-4 * (1 + np.abs(a_.center().double().numpy())) + 1e-5 * float(np.abs(e0).max()), key="pyramid/domain", level=lvl, **info)
            if lvl == 0:
                valid = [v.after(gen.ref_of_grid(g), [0.0] * D, True) for v, g in zip(valid, prev_grids)]
            else:
                r = gaussian_radius(0.7355, 1) if sigma is None else 0
                valid = [v.after(gen.ref_of_grid(g), [float(r)] * D, True) for v, g in zip(valid, prev_grids)]
            check_result(ctx, op, res[lvl], subj, valid, dict(info, level=lvl))
            _, prev_grids = items_of(res[lvl])
            if prev_grids is None or len(prev_grids) != len(valid):
                return None
            out = Subject(res[lvl], subj.ramps, valid, subj.kind)
        return out
    support, interp = support_of(op, desc, grids[0])
    new_valid = [v.after(gen.ref_of_grid(g), support, interp) for v, g in zip(subj.valid, grids)]
    check_result(ctx, op, res, subj, new_valid, info)
    if op in INDEX_OPS and noise is not None:
        ncall, _ = None, None
        with ctx.guard(f"{desc0['kind']}.{op}(noise)", key=f"exc/{op}/" + exc_class(op, pub), **info):
            nres = replay_on(noise, op, pub)
            check_index_exact(ctx, op, nres, noise, info)
    d2, g2 = items_of(res)
    if d2 is None or len(g2) != d2.shape[0] or len(g2) != len(new_valid):
        return None
    return Subject(res, subj.ramps, new_valid, subj.kind)


def exc_class(op, desc, grids=None):
    r"""Mechanism key suffix for exceptions: the argument form / input state that provokes it."""
    if op == "upsample" and grids is not None:
        # grids keep a fractional internal size after halving an odd size; the tensor functions do not
        frac = any(bool((g._size != g._size.round()).any()) for g in grids)
        return "fractional-size" if frac else "integer-size"
    if op in ("conv1d", "convnd"):
        return f"{desc.get('kernel', '').split(' ')[0]}/padding={desc.get('padding')}"
    if op == "region_of_interest":
        return "per-axis" if isinstance(desc.get("start"), list) else "scalar"
    return "any"


def replay_on(obj, op, desc):
    r"""Re-apply an index-only call description to another object (the noise twin)."""
    if op in ("crop", "pad"):
        kw = {k: (tuple(v) if isinstance(v, list) else v) for k, v in desc.items() if k in ("margin", "num")}
        return getattr(obj, op)(**kw)
    if op in ("center_crop", "center_pad"):
        return getattr(obj, op)(tuple(desc["size"]))
    if op == "region_of_interest":
        st, sz = desc["start"], desc["size"]
        return obj.region_of_interest(tuple(st) if isinstance(st, list) else st, tuple(sz) if isinstance(sz, list) else sz)
    if op == "narrow":
        return obj.narrow(desc["dim"], desc["start"], desc["length"])
    raise ValueError(op)


def probe_down_up(ctx):
    r"""Deterministic probe of a recorded finding: downsample of an odd-sized image followed by upsample."""
    import torch
    from deepali.core.grid import Grid
    from deepali.data.image import ImageBatch

    for size in ((5, 7), (9, 6, 5)):
        for ac in (True, False):
            g = Grid(size=size, align_corners=ac)
            b = ImageBatch(torch.zeros((1, 1) + tuple(g.shape)), g)
            d = b.downsample(1)
            ctx.true("downsample_grid_matches_data", tuple(d.grid().shape) == tuple(d.shape[2:]), key="downsample/grid_shape", size=list(size))
            with ctx.guard("ImageBatch.downsample.upsample", key="exc/upsample/fractional-size", size=list(size), align_corners=ac):
                u = d.upsample(1)
                ctx.true("upsample_grid_matches_data", tuple(u.grid().shape) == tuple(u.shape[2:]), key="exc/upsample/fractional-size", size=list(size))


def data_transforms(ctx, rng, img):
    r"""deepali.data.transforms image modules vs the Image methods they wrap."""
    import torch
    from deepali.data import transforms as T

    g = img.grid()
    n = [int(k) for k in g.size()]
    D = g.ndim
    ks = int(rng.integers(1, 4))
    csz = tuple(int(rng.integers(max(k - 3, 3), k + 1)) for k in n)
    psz = tuple(int(rng.integers(k, k + 4)) for k in n)
    rsz = tuple(int(rng.integers(max(k // 2, 3), k + 4)) for k in n)
    sp = float(g.spacing().min()) * float(rng.uniform(0.7, 1.6))
    st = int(rng.integers(0, img.shape[0]))
    cases = [
        ("AvgPoolImage", T.AvgPoolImage(ks), lambda x: x.avg_pool(ks)),
        ("CenterCropImage", T.CenterCropImage(csz), lambda x: x.center_crop(csz)),
        ("CenterPadImage", T.CenterPadImage(psz, value=1.5), lambda x: x.center_pad(psz, value=1.5)),
        ("NarrowImage", T.NarrowImage(0, st, 1), lambda x: x.narrow(0, st, 1)),
        ("ResampleImage", T.ResampleImage(sp), lambda x: x.resample(sp)),
        ("ResizeImage", T.ResizeImage(rsz), lambda x: x.resize(rsz)),
        ("ResizeImage(nearest)", T.ResizeImage(rsz, mode="nearest"), lambda x: x.resize(rsz, mode="nearest")),
    ]
    other = img.flip(-1) * 0.5  # a second image of the same type through the same module instance
    for name, mod, direct in cases:
        with ctx.guard(f"transforms.{name}", key=f"exc/data_transforms/{name}"):
            for which, x in (("first", img), ("second", other), ("first_again", img)):
                got, want = mod(x), direct(x)
                same = type(got) is type(want) and tuple(got.shape) == tuple(want.shape) and bool(torch.equal(got.tensor(), want.tensor())) and got.grid() == want.grid() and got.grid().align_corners() == want.grid().align_corners()
                ctx.true("data_transform_equals_image_method", same, key=f"data_transforms/{name}", call=which, got=[type(got).__name__, list(got.shape), repr(got.grid())[:120]], want=[type(want).__name__, list(want.shape), repr(want.grid())[:120]])
            ctx.bucket(f"data_transforms/{name.split('(')[0]}")
    with ctx.guard("transforms.image_transforms(config)", key="exc/data_transforms/config"):
        # the same transforms built from a configuration mapping and applied to a sample dict
        from deepali.data.transforms.image import image_transforms

        seq = image_transforms({"resize": [list(rsz)], "centercrop": [list(csz)]}, key="img")
        sample = {"img": img, "other": 3}
        out = sample
        for tr in seq:
            out = tr(out)
        want = img.resize(rsz).center_crop(csz)
        ctx.true("configured_item_transforms_equal_methods", bool(torch.equal(out["img"].tensor(), want.tensor())) and out["img"].grid() == want.grid() and out["other"] == 3 and sample["img"] is img, key="data_transforms/config")
        ctx.bucket("data_transforms/config")


def run_item(ctx, item):
    import torch

    if item[0] == "probe":
        return probe_down_up(ctx)
    i = item[1]
    rng = ctx.rng()
    kind = ["ImageBatch", "ImageBatch", "Image", "FlowFields", "FlowField"][i % 5]
    subj, desc0, refs = make_subject(ctx, rng, kind)
    ctx.bucket(f"type/{kind}")
    if desc0.get("derived"):
        ctx.bucket("subject/fractional_internal_size")
    if any(gen.grid_nontrivial(p) for p in desc0["grids"]):
        ctx.nontriv(desc0)
    ctx.sample(desc0 if i < 2 else {"kind": kind, "N": desc0["N"]})
    # noise twin on the same grids for the bit-exactness of index-only operations
    data, grids = items_of(subj.batch)
    ndata = torch.tensor(rng.normal(size=tuple(data.shape)), dtype=torch.float32)
    noise = subj.batch._make_instance(ndata[0] if kind in SINGLE else ndata, grids[0] if kind in SINGLE else grids)
    for op in OPS:
        if kind in SINGLE and op == "sample_grids":
            ctx.bucket(f"op/{op}", 0)
            continue
        ctx.bucket(f"op/{op}")
        apply_op(ctx, rng, subj, op, desc0, noise=noise)
    # dataset transforms (deepali.data.transforms): thin modules around the Image methods checked above; each must
    # return exactly what the method returns (values, grid, flag), also when the module is reused
    if kind in SINGLE:
        data_transforms(ctx, rng, subj.batch)
        # geometry accessors of the data classes are those of the grid
        img = subj.batch
        g = img.grid()
        with ctx.guard("Image accessors", key="exc/accessors"):
            same = all(bool(torch.equal(getattr(img, a)(), getattr(g, a)())) for a in ("center", "origin", "spacing", "direction"))
            ctx.true("image_geometry_accessors_are_the_grids", same and img.align_corners() == g.align_corners() and img.cube() == g.cube() and img.domain() == g.domain() and img.sdim == g.ndim, key="accessors/Image")
    else:
        b = subj.batch
        with ctx.guard("ImageBatch accessors", key="exc/accessors"):
            gs = b.grids()
            ok = all(bool(torch.equal(getattr(b, a)()[j], getattr(gg, a)())) for a in ("center", "origin", "spacing", "direction") for j, gg in enumerate(gs))
            ok = ok and [c for c in b.cubes()] == [gg.cube() for gg in gs] and [c for c in b.domains()] == [gg.domain() for gg in gs] and b.nchannels == b.shape[1] and b.sdim == gs[0].ndim
            ctx.true("batch_geometry_accessors_are_the_grids_in_item_order", ok, key="accessors/ImageBatch")
    # chains of up to three operations
    chain_ops = [o for o in OPS if o not in ("pyramid", "sample_grids")]
    for _ in range(2):
        cur = subj
        names = []
        for _step in range(int(rng.integers(2, 4))):
            d, g = items_of(cur.batch)
            if min(d.shape[2:]) < 8:
                break
            op = str(rng.choice(chain_ops))
            names.append(op)
            cur = apply_op(ctx, rng, cur, op, desc0)
            if cur is None:
                break
        ctx.bucket("chain")
        ctx.count("chain_steps", len(names))
