r"""C09 — a transform evaluates its current parameters and grid, never a stale snapshot."""

from __future__ import annotations

import copy as pycopy

import numpy as np

from .. import gen
from .. import xforms as X
from ..oracle.coords import CORNERS, CUBE, WORLD

PROPERTY = "C09"
RULE = (
    "Each case is a random history of up to 8 (thorough: 12) operations drawn from {data_, in-place edit, grid_, "
    "condition_, reset_parameters, update, call, disp, inverse(link=True), clear_buffers, shallow copy then edit "
    "either side} applied to a model with buffered state: DDF, SVF, FFD, SVFFD, callable-parameter linear models, "
    "sequential composites, for every parameter kind. After every step the observed point map t(x) must equal that "
    "of a freshly constructed transform built from the state the object holds at that moment (parameter tensor or "
    "callable output for the current conditioning, grid, constructor options); right after a replacing or resetting "
    "operation disp()/tensor() must equal the fresh transform's, before any call; grid_ must preserve the world-space "
    "displacement at common points. Recorded per case: the operation sequence; evidence lists the operation bigrams "
    "seen. Non-trivial: every history; distinct = hash of model, kind and operation sequence with arguments."
)
ASSUMPTIONS = [
    "state-based oracle: expected output = fresh instance constructed from what the public getters / the callable say the state is now",
    "grid_ of dense models is judged on low-frequency fields with a bound of 10 % of the displacement amplitude (interpolation), FFD subdivision 1e-4",
    "inverses are checked when linked (the unlinked fixed-tensor data_ case is recorded under C07)",
]
ANCHORS = [
    ("deepali.spatial.base", "SpatialTransform._update_hook"),
    ("deepali.spatial.base", "SpatialTransform.grid_"),
    ("deepali.spatial.base", "SpatialTransform.condition_"),
    ("deepali.spatial.base", "NonRigidTransform.tensor"),
    ("deepali.spatial.base", "NonRigidTransform.clear_buffers"),
    ("deepali.spatial.parametric", "ParametricTransform.data_"),
    ("deepali.spatial.parametric", "ParametricTransform.reset_parameters"),
    ("deepali.spatial.parametric", "ParametricTransform.update"),
    ("deepali.spatial.parametric", "ParametricTransform._data"),
    ("deepali.spatial.nonrigid", "DenseVectorFieldTransform.grid_"),
    ("deepali.spatial.nonrigid", "DisplacementFieldTransform.update"),
    ("deepali.spatial.nonrigid", "StationaryVelocityFieldTransform.update"),
    ("deepali.spatial.bspline", "BSplineTransform.grid_"),
    ("deepali.spatial.bspline", "FreeFormDeformation.update"),
    ("deepali.spatial.composite", "CompositeTransform.update"),
]
MODELS = X.NONRIGID + ["Translation", "EulerRotation", "AffineTransform", "Sequential"]
OPS = ["data_", "inplace", "grid_", "condition_", "reset_parameters", "update", "call", "disp", "inverse", "inv_read", "clear_buffers", "copy_edit", "fit", "exp_option"]
N_CASES = {"quick": 300, "thorough": 24000}
BUDGET = {"quick": 600, "thorough": 5400}


N_LINKED = {"quick": 72, "thorough": 2400}
N_VIEWS = {"quick": 60, "thorough": 2400}
VIEWS = ["scale=0.5", "scale=-0.7", "inverse", "inverse_updated"]  # linked views take their parameters from the other transform (like a callable): grid_() only sets their grid


def plan(tier, seed):
    return [["probe", "condition_linear_callable"]] + [["case", i] for i in range(N_CASES[tier])] + [["svf_view", j] for j in range(N_VIEWS[tier])] + [["linked_inverse", j] for j in range(N_LINKED[tier])]


def mandatory(tier):
    return [f"model/{m}" for m in MODELS] + [f"op/{o}" for o in OPS] + [f"kind/{k}" for k in X.KINDS] + [f"grid_/at_new_samples/{k}" for k in ("resize", "other_domain", "same_shape")] + ["first_read_is_inverse", "image_transformer_reads_first", "pointset_transformer_reads_first", "condition_/via_transformer", "update/via_transformer", "condition/copy", "inplace/params.data"] + [f"svf_view/{v}" for v in VIEWS] + ["svf_view/grid_/flip_align_corners", "fit/parameters", "fit/finer", "fit/iterative", "linked_inverse/data_", "linked_inverse/inplace", "linked_inverse/kind/parameter", "linked_inverse/kind/buffer"]


class Subject:
    r"""Transform under test plus what is needed to rebuild it from scratch."""

    def __init__(self, t, name, kind, extra, box=None):
        self.t, self.name, self.kind, self.extra, self.box = t, name, kind, dict(extra), box

    def truth(self):
        r"""Current parameter values according to the object / the callable for the current conditioning."""
        import torch

        if self.kind == "callable":
            args, kwargs = self.t.condition()
            return self.box.fn(*args, **kwargs).detach().clone()
        return self.t.params.detach().clone()

    def fresh(self, invert=False):
        import torch
        from deepali import spatial as S

        cls = getattr(S, self.name)
        v = self.truth()
        p = torch.nn.Parameter(v) if self.kind == "parameter" else v
        extra = dict(self.extra)
        if hasattr(self.t, "exp"):
            extra["steps"] = self.t.exp.steps
            extra["scale"] = self.t.exp.scale
        f = cls(self.t.grid(), groups=v.shape[0], params=p, **extra)
        if invert:
            f = f.inverse()
        f.update()
        return f


class CondBox:
    r"""Callable parameters depending on the conditioning: value = base * scale + shift."""

    def __init__(self, base):
        self.base = base
        self.calls = 0

    def fn(self, scale=1.0, shift=0.0):
        return self.base * float(scale) + float(shift) * 0.01

    def __call__(self, *args, **kwargs):
        self.calls += 1
        return self.fn(*args, **kwargs)


def cube_axes(grid):
    return CORNERS if grid.align_corners() else CUBE


def world_disp(t, W):
    r"""World displacement of transform ``t`` at world points W (M, D) via its point map."""
    import torch

    ref = gen.ref_of_grid(t.grid())
    ax = cube_axes(t.grid())
    x = ref.points(W, WORLD, ax)
    with torch.no_grad():
        y = t(torch.tensor(x[None], dtype=torch.float32)).double().numpy()
    return ref.points(y, ax, WORLD) - W, (np.abs(x) <= 0.9).all(axis=-1)


def build(ctx, rng, name, kind, g, G):
    import torch
    from deepali import spatial as S

    if kind == "callable":
        probe, info = X.make(rng, name, g, groups=G, kind="buffer", amplitude=0.6)
        base = torch.tensor(info["values"][""], dtype=torch.float32)
        box = CondBox(base)
        extra = info.get("extra", {})
        t = getattr(S, name)(g, groups=G, params=box, **extra)
        t.update()
        return Subject(t, name, kind, extra, box)
    t, info = X.make(rng, name, g, groups=G, kind=kind, amplitude=0.6)
    return Subject(t, name, kind, info.get("extra", {}))


def probe_condition(ctx):
    r"""Deterministic probe of a recorded finding: disp()/tensor() of a linear model right after condition_()."""
    import torch
    from deepali import spatial as S
    from deepali.core.grid import Grid

    g = Grid(size=(8, 7))
    box = CondBox(torch.tensor([[0.1, -0.2]]))
    t = S.Translation(g, params=box)
    t.update()
    t.condition_(0.5, shift=1.0)
    want = box.fn(0.5, shift=1.0)
    info = dict(model="Translation", kind="callable", probe=True)
    ctx.close("tensor_equals_fresh_transform_with_current_state", t.tensor()[..., 0], want, 1e-6, key="stale/tensor_after_condition_/linear-callable", **info)
    f = S.Translation(g, params=want.clone())
    ctx.close("disp_equals_fresh_transform_with_current_state", t.disp(), f.disp(), 1e-6, key="stale/disp_after_condition_/linear-callable", **info)
    x = torch.zeros(1, 1, 2)
    ctx.close("call_equals_fresh_transform_with_current_state", t(x), f(x), 1e-6, key="stale/call_after_condition_/linear-callable", **info)


def run_item(ctx, item):
    import torch
    from deepali import spatial as S

    if item[0] == "probe":
        return probe_condition(ctx)
    if item[0] == "svf_view":
        return svf_view(ctx, item[1])
    if item[0] == "linked_inverse":
        return linked_inverse(ctx, item[1])
    i = item[1]
    rng = ctx.rng()
    model = MODELS[i % len(MODELS)]
    kind = X.KINDS[(i // len(MODELS)) % 3]
    D = 2 if (i // 3) % 3 else 3
    G = 2 if (i // 5) % 4 == 0 else 1
    need_ac = "FreeForm" in model
    gp = gen.rand_grid_params(rng, D, max_size=14 if D == 2 else 8, min_size=7 if D == 2 else 6, big_offset=False, align_corners=True if need_ac else None)
    g = gen.make_grid(gp)
    ctx.bucket(f"model/{model}")
    ctx.bucket(f"kind/{kind}")
    info = dict(model=model, kind=kind, D=D, groups=G)
    if model == "Sequential":
        names = ["AffineTransform", str(rng.choice(["DisplacementFieldTransform", "StationaryVelocityFieldTransform"]))]
        subs = []
        with ctx.guard("build", key=f"exc/build/{model}", **info):
            for n in names:
                if n == "AffineTransform":
                    t_, inf = X.make(rng, n, g, groups=G, kind="buffer" if kind == "callable" else kind, amplitude=0.5)
                    subs.append(None)
                    aff = t_
                else:
                    s_ = build(ctx, rng, n, kind, g, G)
                    subs.append(s_)
            seq = S.SequentialTransform(aff, subs[1].t)
        return history_composite(ctx, rng, info, seq, aff, subs[1], i)
    if model in ("Translation", "EulerRotation", "AffineTransform") and kind != "callable":
        # linear models only keep buffered state when their parameters come from a callable
        kind = "callable"
        info["kind"] = kind
    subj = None
    with ctx.guard("build", key=f"exc/build/{model}/{kind}", **info):
        if model == "AffineTransform":
            return history_affine_callable(ctx, rng, info, g, G, i)
        subj = build(ctx, rng, model, kind, g, G)
    if subj is None:
        return
    history(ctx, rng, info, subj, i)


def compare_fresh(ctx, subj, x, history_, info, what, inverse=None):
    import torch

    t = subj.t
    with torch.no_grad():
        if what == "call":
            got = t(x)
            want = subj.fresh()(x)
        elif what == "disp":
            got = t.disp()
            want = subj.fresh().disp()
        elif what == "tensor":
            got = t.tensor()
            want = subj.fresh().tensor()
        elif what == "inverse":
            got = inverse(x)
            want = subj.fresh(invert=True)(x)
        elif what == "warp":  # through an ImageTransformer built earlier on the same transform object
            got = inverse["warp"](inverse["image"])
            from deepali import spatial as S_

            want = S_.ImageTransformer(subj.fresh())(inverse["image"])
        elif what == "points":  # through a PointSetTransformer built earlier on the same transform object
            from deepali import spatial as S_

            got = inverse(x)
            want = S_.PointSetTransformer(subj.fresh())(x)
        elif what == "inv_disp":  # the ready-made inverse read without going through its call hook
            got = t.inv.disp()
            want = subj.fresh(invert=True).disp()
        elif what == "inv_forward":
            got = t.inverse(link=bool(history_[-1].get("link")), update_buffers=True).forward(x)
            want = subj.fresh(invert=True)(x)
    last = history_[-1]["op"] if history_ else "build"
    ctx.close(f"{what}_equals_fresh_transform_with_current_state", got, want, 2e-5 * (1 + float(want.abs().max())), key=f"stale/{what}_after_{last}/{'linear' if t.linear else 'nonrigid'}-{subj.kind}", history=list(history_), **info)


def first_read_is_inverse(ctx, rng, subj, x, hist, info, desc):
    r"""Every other time the first reader after a replacing operation is the ready-made inverse (no forward evaluation in between)."""
    t = subj.t
    # (not for callable parameters: a linked inverse is documented to read the parameters the forward transform
    # predicted at its last update, so it legitimately lags until the forward transform is updated)
    if subj.kind != "callable" and (hasattr(t, "invert") or hasattr(t, "exp")) and rng.integers(0, 2):
        desc["first_read"] = "inverse"
        desc["link"] = True
        ctx.bucket("first_read_is_inverse")
        compare_fresh(ctx, subj, x, hist, info, "inv_disp" if not t.linear else "inv_forward")


def history(ctx, rng, info, subj, i):
    import torch

    t = subj.t
    D = t.ndim
    x = torch.tensor(rng.uniform(-0.8, 0.8, size=(1, 9, D)), dtype=torch.float32)
    hist = []
    inv = None
    warper = None
    mapper = None
    from deepali import spatial as S

    max_len = 8 if ctx.tier == "quick" else 12
    n_ops = int(rng.integers(3, max_len + 1))
    prev = "build"
    compare_fresh(ctx, subj, x, hist, info, "call")
    for step in range(n_ops):
        op = str(rng.choice(OPS))
        desc = {"op": op}
        with ctx.guard(f"op/{op}", key=f"exc/op/{op}/{'linear' if t.linear else 'nonrigid'}-{subj.kind}", history=list(hist), **info):
            if op == "data_":
                if subj.kind == "callable":
                    continue
                new = t.params.detach().clone() * float(rng.uniform(0.3, 0.9))
                t.data_(new)
                hist.append(desc)
                first_read_is_inverse(ctx, rng, subj, x, hist, info, desc)
                compare_fresh(ctx, subj, x, hist, info, "disp")
                compare_fresh(ctx, subj, x, hist, info, "tensor")
            elif op == "inplace":
                if subj.kind == "callable":
                    with torch.no_grad():
                        subj.box.base.mul_(float(rng.uniform(0.5, 0.9)))
                    desc["target"] = "callable_state"
                elif rng.integers(0, 3) == 0:
                    # the same edit written through .data (no autograd version bump)
                    t.params.data.mul_(float(rng.uniform(0.5, 0.9)))
                    desc["target"] = "params.data"
                    ctx.bucket("inplace/params.data")
                else:
                    with torch.no_grad():
                        t.params.mul_(float(rng.uniform(0.5, 0.9)))
                hist.append(desc)
            elif op == "grid_":
                if not grid_op(ctx, rng, info, subj, hist, desc):
                    continue
                compare_fresh(ctx, subj, x, hist, info, "disp")
                # an inverse created earlier keeps its own (old) grid: what it should compute after the forward
                # transform was re-gridded is not defined by the property; it is no longer followed
                inv = None
                warper = None  # built for the old grid
                mapper = None
            elif op == "condition_":
                args = dict(scale=float(rng.uniform(0.3, 1.2)), shift=float(rng.uniform(-1, 1)))
                desc.update(args)
                wrapper = (mapper if mapper is not None else (warper or {}).get("warp")) if rng.integers(0, 2) else None
                if wrapper is not None:
                    # through the transformer module that holds the transform (SpatialTransformer.condition_ delegates)
                    desc["via"] = type(wrapper).__name__
                    wrapper.condition_(args["scale"], shift=args["shift"])
                    ctx.bucket("condition_/via_transformer")
                    ca, ck = wrapper.condition()
                    ctx.true("transformer_reports_the_transforms_condition", (tuple(ca), dict(ck)) == (tuple(t.condition()[0]), dict(t.condition()[1])) and tuple(ca) == (args["scale"],) and dict(ck) == {"shift": args["shift"]}, key="condition/transformer", got=[list(ca), dict(ck)], history=list(hist), **info)
                else:
                    t.condition_(args["scale"], shift=args["shift"])
                hist.append(desc)
                first_read_is_inverse(ctx, rng, subj, x, hist, info, desc)
                compare_fresh(ctx, subj, x, hist, info, "disp")
                compare_fresh(ctx, subj, x, hist, info, "tensor")
                # the copying form, positional + keyword and keyword-only: the copy holds the new conditioning and
                # evaluates with it, the transform it was taken from keeps its own (also through a transformer)
                held = t.condition()
                for cargs, ckw in (((0.77,), {"shift": 0.3}), ((), {"scale": 0.6, "shift": -0.2})):
                    sources = [("transform", t)] + ([("transformer", mapper)] if mapper is not None else [])
                    for sname, src in sources:
                        c = src.condition(*cargs, **ckw)
                        ok = ctx.true("condition_copy_is_a_new_object_holding_the_new_conditioning", c is not src and not isinstance(c, tuple) and (tuple(c.condition()[0]), dict(c.condition()[1])) == (cargs, ckw), key=f"condition/copy/{sname}", got=repr(c.condition() if hasattr(c, "condition") and not isinstance(c, tuple) else c)[:200], args=[list(cargs), ckw], history=list(hist), **info)
                        ctx.true("condition_copy_leaves_source_conditioning", (tuple(t.condition()[0]), dict(t.condition()[1])) == (tuple(held[0]), dict(held[1])), key=f"condition/copy/{sname}/source", history=list(hist), **info)
                        if ok and sname == "transform":
                            compare_fresh(ctx, Subject(c, subj.name, subj.kind, subj.extra, subj.box), x, hist + [{"op": "condition(copy)"}], info, "call")
                    compare_fresh(ctx, subj, x, hist, info, "call")
                ctx.bucket("condition/copy")
            elif op == "reset_parameters":
                if subj.kind == "callable":
                    continue  # documented: predicted parameters come back with the next update
                t.reset_parameters()
                hist.append(desc)
                first_read_is_inverse(ctx, rng, subj, x, hist, info, desc)
                compare_fresh(ctx, subj, x, hist, info, "disp")
                ctx.close("reset_gives_identity", t(x), np.broadcast_to(x.numpy(), t(x).shape), 1e-6, key="reset/identity", history=list(hist), **info)
            elif op == "fit":
                # replaces the parameters by a given flow field (closed form for a dense displacement field)
                if subj.name != "DisplacementFieldTransform" and subj.kind == "parameter" and not t.linear:
                    # iterative fit of the other non-rigid models (a few gradient steps): it runs, and what the transform
                    # shows afterwards is what its parameters now say
                    from deepali.core.grid import Axes as Axes_
                    from deepali.data.flow import FlowFields as FF_

                    gt_ = t.grid()
                    tgt = torch.tensor(rng.normal(size=(t.params.shape[0], D) + tuple(gt_.shape)) * 0.02, dtype=torch.float32)
                    for _ in range(3):
                        tgt = (tgt + tgt.roll(1, -1) + tgt.roll(1, -2)) / 3
                    t.fit(FF_(tgt, gt_, Axes_.from_grid(gt_)), steps=3, lr=0.01)
                    desc["iterative"] = True
                    hist.append(desc)
                    ctx.bucket("fit/iterative")
                    compare_fresh(ctx, subj, x, hist, info, "disp")
                    compare_fresh(ctx, subj, x, hist, info, "tensor")
                    continue
                if subj.name != "DisplacementFieldTransform" or subj.kind == "callable":
                    continue
                from deepali.core.grid import Axes
                from deepali.data.flow import FlowFields

                pg = t.grid().resize(tuple(t.params.shape[:1:-1]))  # grid of the parameters (stride)
                same = bool(rng.integers(0, 2))
                fg = pg if same else t.grid().resize(tuple(int(k) + 2 for k in t.grid().size()))
                fdata = torch.tensor(rng.normal(size=(t.params.shape[0], D) + tuple(fg.shape)) * 0.1, dtype=torch.float32)
                for _ in range(2):
                    fdata = (fdata + fdata.roll(1, -1) + fdata.roll(1, -2)) / 3
                desc["flow_grid"] = "parameters" if same else "finer"
                t.fit(FlowFields(fdata, fg, Axes.from_grid(fg)))
                hist.append(desc)
                ctx.bucket("fit/" + desc["flow_grid"])
                if same:
                    ctx.close("fit_takes_over_flow_given_on_parameter_grid", t.params.detach(), fdata.numpy(), 1e-6, key="fit/values", history=list(hist), **info)
                first_read_is_inverse(ctx, rng, subj, x, hist, info, desc)
                compare_fresh(ctx, subj, x, hist, info, "disp")
                compare_fresh(ctx, subj, x, hist, info, "tensor")
            elif op == "update":
                wrapper = (mapper if mapper is not None else (warper or {}).get("warp")) if rng.integers(0, 2) else None
                if wrapper is not None:
                    desc["via"] = type(wrapper).__name__
                    wrapper.update()
                    ctx.bucket("update/via_transformer")
                else:
                    t.update()
                hist.append(desc)
                compare_fresh(ctx, subj, x, hist, info, "disp")
            elif op == "call":
                hist.append(desc)
            elif op == "disp":
                t.disp()
                hist.append(desc)
            elif op == "inverse":
                if not hasattr(t, "invert") and not hasattr(t, "exp"):
                    continue
                inv = t.inverse(link=True, update_buffers=bool(rng.integers(0, 2)))
                hist.append(desc)
            elif op == "inv_read":
                if subj.kind == "callable" or (not hasattr(t, "invert") and not hasattr(t, "exp")):
                    continue
                desc["link"] = bool(rng.integers(0, 2))
                hist.append(desc)
                compare_fresh(ctx, subj, x, hist, info, "inv_disp" if not t.linear else "inv_forward")
                compare_fresh(ctx, subj, x, hist, info, "inv_forward")
            elif op == "exp_option":
                # the options of the exponential map are part of what a velocity-field transform holds
                if not hasattr(t, "exp"):
                    continue
                if rng.integers(0, 2):
                    t.exp.steps = int(rng.choice([k for k in (2, 3, 4, 6) if k != t.exp.steps]))
                    desc["steps"] = t.exp.steps
                else:
                    t.exp.scale = float(t.exp.scale) * float(rng.choice([0.5, -1.0, 1.5]))
                    desc["scale"] = t.exp.scale
                hist.append(desc)
                inv = None  # an inverse created earlier owns its (negated) copy of the exponential: it is no longer followed
            elif op == "clear_buffers":
                t.clear_buffers()
                hist.append(desc)
            elif op == "copy_edit":
                c = pycopy.copy(t)
                side = str(rng.choice(["copy", "original"]))
                desc["side"] = side
                target = c if side == "copy" else t
                if subj.kind != "callable":
                    with torch.no_grad():
                        target.params.mul_(0.8)
                else:
                    target.condition_(0.7, shift=0.2)
                hist.append(desc)
                sc = Subject(c, subj.name, subj.kind, subj.extra, subj.box)
                compare_fresh(ctx, sc, x, hist, info, "call")
        ctx.bucket(f"op/{op}")
        ctx.count(f"bigram/{prev}>{op}")
        prev = op
        with ctx.guard("call", key=f"exc/call_after/{op}", history=list(hist), **info):
            if step % 4 == 0:
                # the point set transformer is the first reader (it must trigger the update itself)
                if mapper is None:
                    mapper = S.PointSetTransformer(t)
                ctx.bucket("pointset_transformer_reads_first")
                compare_fresh(ctx, subj, x, hist, info, "points", inverse=mapper)
            if step % 2:
                # the image transformer is the first reader every other step (it must trigger the update itself)
                if warper is None:
                    warper = {"warp": S.ImageTransformer(t), "image": torch.tensor(rng.uniform(size=(t.grid().shape if False else (1, 1) + tuple(t.grid().shape))), dtype=torch.float32)}
                    for _ in range(2):
                        warper["image"] = (warper["image"] + warper["image"].roll(1, -1) + warper["image"].roll(1, -2)) / 3
                ctx.bucket("image_transformer_reads_first")
                compare_fresh(ctx, subj, x, hist, info, "warp", inverse=warper)
            compare_fresh(ctx, subj, x, hist, info, "call")
            if inv is not None:
                compare_fresh(ctx, subj, x, hist, info, "inverse", inverse=inv)
    ctx.nontriv(info, hist)
    if i < 4:
        ctx.sample({"case": info, "history": hist})


def linked_inverse(ctx, j):
    r"""A linked inverse created early in a history reads the forward transform's parameters of the moment."""
    import torch

    rng = ctx.rng()
    models = X.LINEAR + X.LINEAR_COMPOSITE + ["StationaryVelocityFieldTransform"]
    model = models[j % len(models)]
    kind = ["parameter", "buffer"][(j // len(models)) % 2]
    how = ["inverse(link=True)", "inv"][(j // (2 * len(models))) % 2]
    D = 3 if (model in X.ONLY_3D or j % 3 == 0) else 2
    g = gen.make_grid(gen.rand_grid_params(rng, D, max_size=12 if D == 2 else 8, min_size=7 if D == 2 else 6, big_offset=False))
    info = dict(model=model, kind=kind, D=D, how=how)
    ctx.nontriv("linked_inverse", model, kind, how, j)
    x = torch.tensor(rng.uniform(-0.5, 0.5, size=(1, 11, D)), dtype=torch.float32)
    hist = ["build"]
    with ctx.guard("linked_inverse", key=f"exc/linked_inverse/{model}/{kind}", history=hist, **info), torch.no_grad():
        t, _ = X.make(rng, model, g, groups=1, kind=kind, amplitude=0.4)
        inv = t.inv if how == "inv" else t.inverse(link=True)
        hist.append(how)
        velocity = "Velocity" in model
        n = np.array([float(k) for k in g.size()])
        tol = (0.35 * 0.16 + 0.09 * 0.4) * float((2.0 / (n - 1 if g.align_corners() else n)).max()) * 2 if velocity else 1e-4
        leaves_ = [m for m in t.modules() if hasattr(m, "params") and isinstance(m.params, torch.Tensor)]
        for step in range(int(rng.integers(3, 6))):
            op = str(rng.choice(["data_", "inplace", "data_", "call_forward", "call_inverse"]))
            if op == "data_":
                for m in leaves_:
                    p_ = m.params
                    m.data_(p_.detach().clone() + torch.randn_like(p_) * 0.05 * (float(p_.abs().mean()) + 0.1))
            elif op == "inplace":
                for m in leaves_:
                    m.params.add_(torch.randn_like(m.params) * 0.05 * (float(m.params.abs().mean()) + 0.1))
            elif op == "call_forward":
                t(x)
            else:
                inv(x)
            hist.append(op)
            ctx.bucket(f"linked_inverse/{op}")
            back = inv(t(x))
            ctx.close("linked_inverse_inverts_current_forward_map", back, x.numpy(), tol, key=f"linked_inverse/after_{op}/{'velocity' if velocity else 'linear'}-{kind}", history=list(hist), **info)
        ctx.bucket(f"linked_inverse/kind/{kind}")


def svf_view(ctx, j):
    r"""grid_() of velocity-field transforms whose exponential is scaled or negated (inverse views)."""
    import torch

    rng = ctx.rng()
    view = VIEWS[j % len(VIEWS)]
    name = "StationaryVelocityFreeFormDeformation" if (j // len(VIEWS)) % 4 == 3 else "StationaryVelocityFieldTransform"
    kind = ["parameter", "buffer"][(j // (len(VIEWS) * 4)) % 2]
    D = 2 if j % 3 else 3
    need_ac = "FreeForm" in name
    gp = gen.rand_grid_params(rng, D, max_size=12 if D == 2 else 8, min_size=7 if D == 2 else 6, big_offset=False, align_corners=True if need_ac else None)
    g = gen.make_grid(gp)
    info = dict(model=name, kind=kind, D=D, view=view)
    ctx.nontriv("svf_view", name, kind, view, j)
    with ctx.guard("svf_view", key=f"exc/svf_view/{name}/{view}", **info):
        kw = {"scale": float(view.split("=")[1])} if view.startswith("scale=") else {}
        base, inf = X.make(rng, name, g, groups=1, kind=kind, amplitude=0.6, **kw)
        base.update()
        if view == "inverse":
            t = base.inverse()
        elif view == "inverse_updated":
            t = base.inverse(update_buffers=True)
        else:
            t = base
        ctx.bucket(f"svf_view/{view}")
        scale0 = float(t.exp.scale) if t.exp.scale is not None else 1.0
        subj = Subject(t, name, kind, inf.get("extra", {}))
        desc = {"op": "grid_"}
        hist = [f"build({view})"]
        force = None if need_ac else [1, 1, 0, 2, 3, 4][(j // len(VIEWS)) % 6]
        if grid_op(ctx, rng, info, subj, hist, desc, force=force):
            ctx.bucket(f"svf_view/grid_/{desc.get('kind')}")
            ctx.true("grid_change_keeps_exponential_scale", abs((float(t.exp.scale) if t.exp.scale is not None else 1.0) - scale0) < 1e-12, key=f"grid_/{desc.get('kind')}/{name}", got=t.exp.scale, want=scale0, history=hist, **info)
            ctx.true("grid_change_keeps_exponential_steps", t.exp.steps == base.exp.steps, key=f"grid_/{desc.get('kind')}/{name}", got=t.exp.steps, want=base.exp.steps, **info)


def grid_op(ctx, rng, info, subj, hist, desc, force=None):
    r"""grid_(): world-space deformation preserved at common points; returns False if not applicable."""
    import torch

    t = subj.t
    g = t.grid()
    D = g.ndim
    ref = gen.ref_of_grid(g)
    if "FreeForm" in subj.name:
        if subj.kind == "callable" or max(g.size()) > 20:
            return False
        dims = sorted(rng.choice(D, size=int(rng.integers(1, D + 1)), replace=False).tolist())
        new_size = tuple(2 * n - 1 if d in dims else n for d, n in enumerate(g.size()))
        g2 = g.resize(new_size)
        desc.update(kind="subdivide", dims=dims)
        # FFD: the refined spline is the same function; SVFFD: the velocity spline is the same, its exponential
        # is re-computed by scaling and squaring on the finer grid (interpolation-level change)
        bound_rel, floor = (1e-3, 1e-5) if subj.name == "FreeFormDeformation" else (0.05, 1e-4)
    else:
        choice = int(rng.integers(0, 5)) if force is None else force
        dense_exact = 1e-3 if subj.name == "DisplacementFieldTransform" else 0.03
        if choice == 0:
            g2 = g.resize(tuple(int(rng.integers(max(5, n // 2 + 1), 2 * n)) for n in g.size()))
            desc.update(kind="resize", size=list(g2.size()))
            bound_rel, floor = 1.25, 1e-4  # arbitrary resampling loses resolution: gross sanity bound only (exact oracle below)
        elif choice == 1:
            # same sample positions, other normalisation: exact at the samples
            g2 = g.align_corners(not g.align_corners())
            desc.update(kind="flip_align_corners")
            bound_rel, floor = dense_exact, 1e-5
        elif choice == 2 and g.align_corners() and max(g.size()) <= 12:
            # 2n - 1 samples with aligned corners: every old sample coincides with a new one
            g2 = g.resize(tuple(2 * n - 1 for n in g.size()))
            desc.update(kind="refine", size=list(g2.size()))
            bound_rel, floor = dense_exact, 1e-5
        elif choice == 3:
            # another domain: slightly shifted / rotated / rescaled so that most of the old domain stays covered
            p = gen.rand_grid_params(rng, D, max_size=16 if D == 2 else 9, min_size=8 if D == 2 else 7, big_offset=False, route="center", direction="smallrot")
            p["direction"] = gen.f32(np.asarray(p["direction"]) @ ref.R).tolist()
            ext = ref.s * ref.n
            p["center"] = gen.f32(ref.c + rng.normal(size=D) * 0.02 * ext).tolist()
            p["spacing"] = gen.f32(ext * rng.uniform(0.9, 1.05, size=D) / np.asarray(p["size"], dtype=float)).tolist()
            g2 = gen.make_grid(p)
            desc.update(kind="other_domain", grid=p)
            bound_rel, floor = 1.25, 1e-4
        else:
            # same number of samples and same flag, but another region of the world: smaller, shifted, slightly rotated
            p = gen.rand_grid_params(rng, D, max_size=8, min_size=5, big_offset=False, route="center", direction="smallrot", align_corners=g.align_corners())
            p["size"] = [int(k) for k in g.size()]
            p["direction"] = gen.f32(np.asarray(p["direction"]) @ ref.R).tolist()
            ext = ref.s * ref.n
            p["center"] = gen.f32(ref.c + rng.normal(size=D) * 0.03 * ext).tolist()
            p["spacing"] = gen.f32(ref.s * rng.uniform(0.55, 0.8, size=D)).tolist()
            g2 = gen.make_grid(p)
            desc.update(kind="same_shape", grid=p)
            bound_rel, floor = 1.25, 1e-4
        if desc["kind"] in ("resize", "other_domain", "same_shape"):
            ctx.bucket(f"grid_/{desc['kind']}")
    if subj.kind == "callable":
        # documented: only the grid attribute changes, the callable must return matching sizes
        return False
    if "FreeForm" in subj.name or desc["kind"] in ("flip_align_corners", "refine"):
        # fields are sampled on the image grid and interpolated linearly in between: compare where the old
        # samples coincide with samples of the new grid
        idx = np.stack([rng.integers(1, max(int(k) - 1, 2), size=40) for k in g.size()], axis=-1).astype(np.float64)
        W = ref.points(idx, "grid", WORLD)
    else:
        W = ref.points(rng.uniform(-0.55, 0.55, size=(40, D)), cube_axes(g), WORLD)
    W2 = None
    if "FreeForm" not in subj.name and desc["kind"] in ("resize", "other_domain", "same_shape"):
        # re-gridding samples the old (piecewise linear) field at the new sample positions: at those positions the
        # old and the new transform must agree up to rounding (dense displacements), whatever the resolution
        ref2 = gen.ref_of_grid(g2)
        idx2 = np.stack([rng.integers(0, int(k), size=60) for k in g2.size()], axis=-1).astype(np.float64)
        W2 = ref2.points(idx2, "grid", WORLD)
        io = ref.points(W2, WORLD, "grid")  # inside the old sample lattice: between samples the field is interpolated,
        inside_old = ((io >= 0.01) & (io <= ref.n - 1.01)).all(axis=-1)  # beyond them it is extrapolated (padding mode)
        W2 = W2[inside_old]
        if len(W2):
            before2, in1b = world_disp(t, W2)
    before, in1 = world_disp(t, W)
    t.grid_(g2)
    hist.append(desc)
    after, in2 = world_disp(t, W)
    m = in1 & in2
    if desc["kind"] == "other_domain":
        ref2 = gen.ref_of_grid(g2)
        m &= (np.abs(ref2.points(W, WORLD, cube_axes(g2))) <= 0.6).all(axis=-1)
    amp = float(np.abs(before).max()) + 1e-9
    if m.any():
        ctx.close(f"grid_change_preserves_world_deformation/{desc['kind']}/{subj.name}", after[:, m], before[:, m], bound_rel * amp + floor, key=f"grid_/{desc['kind']}/{subj.name}", history=list(hist), amplitude=amp, **info)
    if W2 is not None and len(W2):
        after2, in2b = world_disp(t, W2)
        m2 = in1b & in2b
        amp2 = float(np.abs(before2).max()) + 1e-9
        if m2.any():
            rel2 = 2e-3 if subj.name == "DisplacementFieldTransform" else 0.25
            if subj.name != "DisplacementFieldTransform":
                # a velocity field is preserved at the new samples, its exponential is recomputed on the new grid: on a grid
                # that is much coarser along some axis the two exponentials differ by more (seen once in 28 801 thorough
                # histories: spacing 5.1 against 1); the bound grows with the loss of resolution, up to the gross bound
                s2_ = gen.ref_of_grid(g2).s
                coarser = float(np.max(s2_) / np.max(ref.s))
                aniso = float(np.max(s2_) / np.min(s2_))  # (the same history again: spacing (0.11, 0.40, 5.09), ratio 47)
                rel2 = min(1.25, rel2 * max(1.0, coarser) * max(1.0, aniso / 8.0))
            ctx.bucket(f"grid_/at_new_samples/{desc['kind']}")
            ctx.close(f"grid_change_preserves_world_deformation_at_new_samples/{desc['kind']}/{subj.name}", after2[:, m2], before2[:, m2], rel2 * max(amp, amp2) + 1e-5, key=f"grid_/{desc['kind']}/{subj.name}", history=list(hist), amplitude=amp2, **info)
    ctx.true("grid_attribute_updated", t.grid() == g2 and t.grid().align_corners() == g2.align_corners(), key="grid_/attribute", **info)
    return True


def history_affine_callable(ctx, rng, info, g, G, i):
    r"""AffineTransform whose three members obtain their parameters from callables; conditioning goes through the composite."""
    import torch
    from deepali import spatial as S

    D = g.ndim
    boxes = {}
    kw = {}
    for key, cname in (("scaling", "AnisotropicScaling"), ("rotation", "EulerRotation"), ("translation", "Translation")):
        base = torch.tensor(X.natural_values(rng, cname, D, G, g), dtype=torch.float32)
        b = CondBox(base) if key != "scaling" else X.Box(base)
        boxes[key] = b
        kw[key] = b
    t = S.AffineTransform(g, groups=G, **kw)
    x = torch.tensor(rng.uniform(-0.8, 0.8, size=(1, 9, D)), dtype=torch.float32)
    hist = []

    def fresh():
        args, kwargs = t.condition()
        vals = {}
        for key in ("scaling", "rotation", "translation"):
            b = boxes[key]
            vals[key] = (b.fn(*args, **kwargs) if isinstance(b, CondBox) else b.value).detach().clone()
        f = S.AffineTransform(g, groups=G, **vals)
        f.update()
        return f

    prev = "build"
    for step in range(int(rng.integers(3, 8))):
        op = str(rng.choice(["condition_", "call", "update", "inplace", "disp", "clear_buffers"]))
        desc = {"op": op}
        with ctx.guard(f"op/{op}", key=f"exc/op/{op}/composite-callable", history=list(hist), **info):
            if op == "condition_":
                a = dict(scale=float(rng.uniform(0.3, 1.2)), shift=float(rng.uniform(-1, 1)))
                desc.update(a)
                t.condition_(a["scale"], shift=a["shift"])
                hist.append(desc)
                with torch.no_grad():
                    ctx.close("disp_equals_fresh_transform_with_current_state", t.disp(), fresh().disp(), 2e-5, key="stale/disp_after_condition_/linear-callable", history=list(hist), **info)
            elif op == "inplace":
                with torch.no_grad():
                    boxes["translation"].base.mul_(0.8)
                hist.append(desc)
            elif op == "update":
                t.update()
                hist.append(desc)
            elif op == "disp":
                t.disp()
                hist.append(desc)
            elif op == "clear_buffers":
                t.clear_buffers()
                hist.append(desc)
            else:
                hist.append(desc)
            ctx.bucket(f"op/{op}")
            ctx.count(f"bigram/{prev}>{op}")
            prev = op
            with torch.no_grad():
                ctx.close("call_equals_fresh_transform_with_current_state", t(x), fresh()(x), 2e-5, key=f"stale/call_after_{op}/linear-callable", history=list(hist), **info)
    ctx.nontriv(info, hist)


def history_composite(ctx, rng, info, seq, aff, sub, i):
    import torch
    from deepali import spatial as S

    D = seq.ndim
    x = torch.tensor(rng.uniform(-0.8, 0.8, size=(1, 9, D)), dtype=torch.float32)
    hist = []
    prev = "build"

    def fresh():
        return S.SequentialTransform(aff, sub.fresh())

    for step in range(int(rng.integers(3, 8))):
        op = str(rng.choice(["data_", "inplace", "condition_", "call", "update", "disp", "clear_buffers", "reset_parameters", "inverse"]))
        desc = {"op": op}
        with ctx.guard(f"op/{op}", key=f"exc/op/{op}/composite-{sub.kind}", history=list(hist), **info):
            if op == "data_":
                if sub.kind == "callable":
                    continue
                sub.t.data_(sub.t.params.detach().clone() * 0.7)
            elif op == "inplace":
                with torch.no_grad():
                    (sub.box.base if sub.kind == "callable" else sub.t.params).mul_(0.8)
            elif op == "condition_":
                seq.condition_(float(rng.uniform(0.4, 1.1)), shift=float(rng.uniform(-1, 1)))
            elif op == "update":
                seq.update()
            elif op == "disp":
                seq.disp()
            elif op == "clear_buffers":
                seq.clear_buffers()
            elif op == "reset_parameters":
                if sub.kind == "callable":
                    continue
                sub.t.reset_parameters()
            elif op == "inverse":
                if not hasattr(sub.t, "exp"):
                    continue
                inv = seq.inverse(link=True)
                with torch.no_grad():
                    y = seq(x)
                    ctx.close("composite_inverse_uses_current_state", inv(y), np.broadcast_to(x.numpy(), y.shape), 0.05, key="stale/composite_inverse", history=list(hist), **info)
            hist.append(desc)
            ctx.bucket(f"op/{op}")
            ctx.count(f"bigram/{prev}>{op}")
            prev = op
            with torch.no_grad():
                if op in ("data_", "reset_parameters", "condition_"):
                    ctx.close("disp_equals_fresh_transform_with_current_state", seq.disp(), fresh().disp(), 2e-5, key=f"stale/disp_after_{op}/composite-{sub.kind}", history=list(hist), **info)
                ctx.close("call_equals_fresh_transform_with_current_state", seq(x), fresh()(x), 2e-5, key=f"stale/call_after_{op}/composite-{sub.kind}", history=list(hist), **info)
    ctx.nontriv(info, hist)
