r"""C05 — resampling onto any oriented grid matches ITK's resampler (identity transform)."""

from __future__ import annotations

import numpy as np

from .. import gen
from ..oracle.coords import CORNERS, CUBE, GRID, WORLD
from ..oracle.ramp import grid_indices, world_positions

PROPERTY = "C05"
RULE = (
    "Each case draws a source image (D in {2,3}, C in 1..2, smooth-plus-noise content) on a random oriented grid "
    "and target grids with other size, spacing, position, orientation and align_corners flag (overlapping, partly "
    "outside), and compares Image.sample / ImageBatch.sample (grid, per-image grids, explicit coordinates), "
    "SampleImage (every axes option), AlignImage and TransformImage (identity) for linear and nearest "
    "interpolation and zeros / border / constant-c padding against SimpleITK.Resample with the identity transform "
    "on an ITK image built directly from the same header values; compared at every target sample whose source "
    "continuous index (float64) lies inside the source field of view; fully outside samples must equal the "
    "constant. Non-trivial: rotated/anisotropic source or target; distinct = hash of both geometries and options."
)
ASSUMPTIONS = [
    "SimpleITK.Resample (double precision) is the independent reference; the ITK source image is built from the raw header values, not through Image.sitk()",
    "tolerance = bound of the float32 coordinate error (in source samples) x largest neighbour difference of the image + 1e-5 x range",
    "nearest neighbour: samples within the coordinate error bound of a half-integer tie are excluded (implementations may break ties differently)",
]
ANCHORS = [
    ("deepali.data.image", "ImageBatch.sample"),
    ("deepali.data.image", "Image.sample"),
    ("deepali.core.image", "grid_sample"),
    ("deepali.core.image", "sample_image"),
    ("deepali.core.image", "check_sample_grid"),
    ("deepali.modules.sample", "SampleImage._matrix"),
    ("deepali.modules.sample", "SampleImage.forward"),
    ("deepali.modules.sample", "SampleImage._sample_source_image"),
    ("deepali.modules.sample", "AlignImage.forward"),
    ("deepali.modules.sample", "TransformImage.forward"),
]
N_CASES = {"quick": 80, "thorough": 8000}
BUDGET = {"quick": 400, "thorough": 3600}

PADDINGS = [None, "zeros", "border", 1.75, -3.0]


def plan(tier, seed):
    return [["probe", "far_from_origin_shift"]] + [["case", i] for i in range(N_CASES[tier])]


def mandatory(tier):
    out = [f"mode/{m}" for m in ("linear", "nearest")] + [f"padding/{p}" for p in PADDINGS]
    out += ["api/Image.sample(grid)", "api/ImageBatch.sample(grids)", "api/ImageBatch.sample(grid of first image)", "api/sample(coords)", "api/identity", "api/SampleImage", "api/AlignImage", "api/TransformImage", "inside_samples", "outside_constant_samples", "source/derived_grid", "source/derived_grid/fractional_internal_size", "target/slice", "api/copies", "probe/far_from_origin_shift"]
    return out


def smooth_noise(rng, shape):
    x = rng.normal(size=shape)
    for ax in range(1, len(shape)):
        x = x + np.roll(x, 1, axis=ax) + np.roll(x, -1, axis=ax)
    x = x / np.abs(x).max()
    return x + 0.1 * rng.normal(size=shape)


def sitk_image(p, data):
    r"""ITK image built from raw header values; ``data`` (C, ..., X)."""
    import SimpleITK as sitk

    C = data.shape[0]
    arr = data[0] if C == 1 else np.moveaxis(data, 0, -1)
    img = sitk.GetImageFromArray(np.ascontiguousarray(arr.astype(np.float64)), isVector=C > 1)
    ref = gen.ref_grid(p)
    img.SetOrigin([float(x) for x in ref.o])
    img.SetSpacing([float(x) for x in ref.s])
    img.SetDirection([float(x) for x in ref.R.flatten()])
    return img


def itk_resample(src_img, tp, mode, default):
    import SimpleITK as sitk

    tref = gen.ref_grid(tp)
    D = tref.D
    interp = sitk.sitkLinear if mode == "linear" else sitk.sitkNearestNeighbor
    out = sitk.Resample(
        src_img,
        [int(k) for k in tp["size"]],
        sitk.Transform(D, sitk.sitkIdentity),
        interp,
        [float(x) for x in tref.o],
        [float(x) for x in tref.s],
        [float(x) for x in tref.R.flatten()],
        float(default),
        src_img.GetPixelID(),
    )
    arr = sitk.GetArrayFromImage(out).astype(np.float64)
    if src_img.GetNumberOfComponentsPerPixel() > 1:
        arr = np.moveaxis(arr, -1, 0)
    else:
        arr = arr[None]
    return arr


def target_params(rng, sref, D, kind):
    max_size = 20 if D == 2 else 10
    p = gen.rand_grid_params(rng, D, max_size=max_size, min_size=3, big_offset=False, route="center")
    ext = sref.s * sref.n
    if kind in ("inside", "slice"):
        frac = rng.uniform(0.3, 0.7, size=D)
        shift = 0.1
    else:
        frac = rng.uniform(0.8, 1.6, size=D)
        shift = 0.4
    p["center"] = gen.f32(sref.c + sref.R @ (rng.normal(size=D) * shift * ext)).tolist()
    p["spacing"] = gen.f32(ext * frac / np.asarray(p["size"], dtype=float)).tolist()
    if kind == "slice":
        # a single slice / row: one axis of the target has one sample (either flag)
        ax_ = int(rng.integers(0, D))
        p["size"] = [1 if d == ax_ else int(k) for d, k in enumerate(p["size"])]
    return p


def compare(ctx, name, got, sref, tref, itk, data, mode, padding, info):
    r"""Compare (C, ..., X) values against ITK inside the source FOV; constants fully outside."""
    got = np.asarray(got, dtype=np.float64)
    if got.shape != itk.shape:
        ctx.true("output_shape", False, key=f"{name}/shape", got=list(got.shape), want=list(itk.shape), **info)
        return
    w = world_positions(tref)
    idx = sref.points(w, WORLD, GRID)
    n = sref.n
    e_idx = sref.tol(np.abs(w), WORLD, GRID, eps=1.2e-7, k=16.0).max() + tref.tol(np.abs(grid_indices(w.shape[:-1])), GRID, WORLD, eps=1.2e-7, k=16.0).max() / sref.s.min()
    inside = ((idx >= 1e-3) & (idx <= n - 1 - 1e-3)).all(axis=-1)
    rng_ = float(data.max() - data.min())
    grad = max(float(np.abs(np.diff(data, axis=ax)).max()) for ax in range(1, data.ndim) if data.shape[ax] > 1)
    if mode == "nearest":
        frac = np.abs(idx - np.floor(idx) - 0.5)
        inside &= (frac > 10 * e_idx + 1e-3).all(axis=-1)
        tol = 1e-6 * rng_
    else:
        tol = e_idx * grad + 1e-5 * rng_
    m = np.broadcast_to(inside, got.shape)
    ctx.bucket("inside_samples", int(inside.sum()))
    if inside.any():
        ctx.close(f"{name}_vs_itk_inside_fov", got[m], itk[m], tol, key=f"{name}/{mode}/inside", mode=mode, padding=str(padding), n_inside=int(inside.sum()), **info)
    # fully outside: constant padding value (or zero)
    if padding is None or padding == "zeros" or isinstance(padding, (int, float)):
        c = float(padding) if isinstance(padding, (int, float)) else 0.0
        outside = ((idx < -1.01) | (idx > n + 0.01)).any(axis=-1)
        if outside.any():
            mo = np.broadcast_to(outside, got.shape)
            ctx.bucket("outside_constant_samples", int(outside.sum()))
            ctx.close(f"{name}_constant_outside", got[mo], np.full(int(mo.sum()), c), 1e-5 * (rng_ + abs(c)), key=f"{name}/outside_constant", padding=str(padding), **info)


def probe_far_shift(ctx):
    r"""Deterministic probe: a target grid one sample apart from the source grid, far from the world origin.

    The world coordinates of the two grids differ by one spacing (0.3) at a magnitude of 5e4: a relative difference of
    6e-6. Sampling on the target must return the image shifted by one sample, as ITK does.
    """
    import SimpleITK as sitk
    import torch
    from deepali.core.grid import Grid
    from deepali.data.image import Image

    ctx.bucket("probe/far_from_origin_shift")
    ctx.nontriv("probe", "far_from_origin_shift")
    for D, centre in ((2, (50000.0, -30000.0)), (3, (50000.0, 20000.0, -40000.0))):
        size = (9, 8, 7)[:D]
        sp = (0.3, 0.4, 0.5)[:D]
        for ac in (True, False):
            src = Grid(size=size, spacing=sp, center=centre, align_corners=ac)
            tgt = Grid(size=size, spacing=sp, center=(centre[0] + sp[0],) + tuple(centre[1:]), align_corners=ac)
            data = torch.arange(float(np.prod(size))).reshape((1,) + tuple(size[::-1]))
            img = Image(data, src)
            with ctx.guard("Image.sample(shifted grid far from origin)", key="exc/far_from_origin_shift", D=D):
                out = img.sample(tgt, mode="nearest")
                want = data[..., 1:]  # target sample j coincides with source sample j + 1 along x
                got = out.tensor()[..., :-1]
                ctx.true("sampling_on_a_grid_one_sample_apart_shifts_the_image", out is not img and bool(torch.equal(got, want)), key="sample/grid_equality_tolerance", D=D, align_corners=ac, returned_self=out is img, center=list(centre), spacing=list(sp))
                ctx.true("grids_one_sample_apart_are_not_equal", not (src == tgt), key="sample/grid_equality_tolerance", D=D, align_corners=ac)


def run_item(ctx, item):
    import torch
    from deepali.core.grid import Axes, grid_transform_points
    from deepali.data.image import Image, ImageBatch
    from deepali.modules.sample import AlignImage, SampleImage, TransformImage

    if item[0] == "probe":
        return probe_far_shift(ctx)
    i = item[1]
    rng = ctx.rng()
    D = int(rng.choice([2, 3]))
    C = int(rng.integers(1, 3))
    sp = gen.rand_grid_params(rng, D, max_size=24 if D == 2 else 12, min_size=5, big_offset=(i % 5 == 0))
    sgrid = gen.make_grid(sp)
    if i % 4 == 3:
        # the source image lives on a derived grid (pyramid level / resampled): its internal size may be fractional
        # (e.g. 13 -> 6.5, reported 7); ITK gets the attributes the grid reports
        how = str(rng.choice(["downsample", "resample"]))
        sgrid = sgrid.downsample(1) if how == "downsample" else sgrid.resample(float(sgrid.spacing().min()) * float(rng.uniform(1.15, 1.6)))
        sp = dict(sp, size=[int(k) for k in sgrid.size()], spacing=sgrid.spacing().tolist(), route="center", center=sgrid.center().tolist(), derived=how)
        sp.pop("origin", None)
        ctx.bucket("source/derived_grid")
        if bool((sgrid._size != sgrid._size.round()).any()):
            ctx.bucket("source/derived_grid/fractional_internal_size")
    sref = gen.ref_grid(sp)
    shape = tuple(sp["size"][::-1])
    data = smooth_noise(rng, (C,) + shape).astype(np.float32).astype(np.float64)
    image = Image(torch.tensor(data, dtype=torch.float32), sgrid)
    simg = sitk_image(sp, data)
    ctx.sample({"source": sp, "C": C})
    mode = "linear" if i % 3 else "nearest"
    ctx.bucket(f"mode/{mode}")
    padding = PADDINGS[i % len(PADDINGS)]
    ctx.bucket(f"padding/{padding}")
    default = float(padding) if isinstance(padding, (int, float)) else 0.0
    for t_kind in ("inside", "overhang", "slice"):
        tp = target_params(rng, sref, D, t_kind)
        ctx.bucket(f"target/{t_kind}")
        tref = gen.ref_grid(tp)
        tgrid = gen.make_grid(tp)
        if gen.grid_nontrivial(sp) or gen.grid_nontrivial(tp):
            ctx.nontriv(sp, tp, mode, padding)
        itk = itk_resample(simg, tp, mode, default)
        info = dict(source=sp, target=tp)
        # (a) Image.sample(grid)
        with ctx.guard("Image.sample(grid)", **info):
            ctx.bucket("api/Image.sample(grid)")
            out = image.sample(tgrid, mode=mode, padding=padding)
            ctx.true("sample_returns_image_on_target_grid", isinstance(out, Image) and out.grid() == tgrid and tuple(out.shape[1:]) == tuple(tgrid.shape), got=type(out).__name__)
            compare(ctx, "Image.sample", out.tensor().numpy(), sref, tref, itk, data, mode, padding, info)
        # (c) explicit normalised coordinates agree with sampling on the grid they came from
        with ctx.guard("sample(coords)", **info):
            ctx.bucket("api/sample(coords)")
            ax = Axes.from_align_corners(sgrid.align_corners())
            coords = tgrid.coords(align_corners=sgrid.align_corners())
            coords = grid_transform_points(coords, tgrid, ax, sgrid, ax)
            vals = image.sample(coords, mode=mode, padding=padding)
            ctx.true("sample_coords_returns_plain_tensor", type(vals) is torch.Tensor, got=type(vals).__name__)
            compare(ctx, "Image.sample(coords)", vals.numpy(), sref, tref, itk, data, mode, padding, info)
            out = image.sample(tgrid, mode=mode, padding=padding)
            ctx.close("sample_coords_equals_sample_grid", vals, out.tensor(), 1e-6 * (1 + float(np.abs(data).max())), key="coords_vs_grid")
            bvals = image.batch().sample(coords.unsqueeze(0), mode=mode, padding=padding)
            ctx.close("batch_sample_coords_equals_sample_grid", bvals[0], out.tensor(), 1e-6 * (1 + float(np.abs(data).max())), key="coords_vs_grid")
            # arbitrary point-set shape (M, D)
            flat = coords.reshape(-1, D)
            pv = image.sample(flat, mode=mode, padding=padding)
            ctx.close("sample_pointset_equals_sample_grid", pv.reshape(out.shape), out.tensor(), 1e-6 * (1 + float(np.abs(data).max())), key="coords_vs_grid")
        if t_kind == "slice" and tgrid.align_corners():
            # cube-corner coordinates do not exist along an axis with one sample (2 / (n - 1)): the modules, which work
            # in the target's normalised coordinates, are not asked to resample onto such a grid; Image.sample is
            ctx.count("slice_target_with_aligned_corners_modules_skipped")
            continue
        # (e) module API
        with ctx.guard("SampleImage", **info):
            ctx.bucket("api/SampleImage")
            for axes in (None, Axes.CUBE, Axes.CUBE_CORNERS, Axes.WORLD, Axes.GRID):
                if t_kind == "slice" and axes is Axes.CUBE_CORNERS:
                    continue  # no cube-corner coordinates along a single-sample axis
                mod = SampleImage(tgrid, sgrid, axes=axes, sampling=mode, padding=padding)
                a = mod.axes()
                pts = tgrid.points(a)
                out = mod(pts, image.tensor().unsqueeze(0))
                compare(ctx, "SampleImage", out[0].numpy(), sref, tref, itk, data, mode, padding, dict(info, axes=str(a)))
                ctx.bucket(f"SampleImage/axes={a.value}")
            # unbatched input
            mod = SampleImage(tgrid, sgrid, sampling=mode, padding=padding)
            out = mod(tgrid.points(mod.axes()), image.tensor())
            compare(ctx, "SampleImage(unbatched)", out.numpy(), sref, tref, itk, data, mode, padding, info)
        if t_kind == "inside":
            # copies of the objects involved resample like the originals (their grids keep size, flag and placement)
            with ctx.guard("copies", key="exc/copies", **info):
                import copy as pycopy

                ctx.bucket("api/copies")
                for how, im2 in (("clone", image.clone()), ("deepcopy", pycopy.deepcopy(image)), ("copy", pycopy.copy(image))):
                    out = im2.sample(tgrid, mode=mode, padding=padding)
                    compare(ctx, f"Image.{how}().sample", out.tensor().numpy(), sref, tref, itk, data, mode, padding, info)
                    ax = Axes.from_align_corners(sgrid.align_corners())
                    cc = grid_transform_points(tgrid.coords(align_corners=sgrid.align_corners()), tgrid, ax, sgrid, ax)
                    compare(ctx, f"Image.{how}().sample(coords)", im2.sample(cc, mode=mode, padding=padding).numpy(), sref, tref, itk, data, mode, padding, info)
                mod = pycopy.deepcopy(SampleImage(tgrid, sgrid, sampling=mode, padding=padding))
                out = mod(tgrid.points(mod.axes()), image.tensor())
                compare(ctx, "deepcopy(SampleImage)", out.numpy(), sref, tref, itk, data, mode, padding, info)
                mod = pycopy.deepcopy(AlignImage(tgrid, sgrid, sampling=mode, padding=padding if padding is not None else "zeros"))
                out = mod(None, image.tensor().unsqueeze(0))
                compare(ctx, "deepcopy(AlignImage)(None)", out[0].numpy(), sref, tref, itk, data, mode, padding, info)
        with ctx.guard("AlignImage", **info):
            ctx.bucket("api/AlignImage")
            mod = AlignImage(tgrid, sgrid, sampling=mode, padding=padding if padding is not None else "zeros")
            out = mod(None, image.tensor().unsqueeze(0))
            compare(ctx, "AlignImage(None)", out[0].numpy(), sref, tref, itk, data, mode, padding, info)
            eye = torch.eye(D, D + 1).unsqueeze(0)
            out = mod(eye, image.tensor().unsqueeze(0))
            compare(ctx, "AlignImage(identity)", out[0].numpy(), sref, tref, itk, data, mode, padding, info)
            # the module is reused: calls with other transforms in between (translation vector, matrix) must not
            # change what the identity resampling returns afterwards
            mod(torch.tensor(rng.normal(size=(1, D, 1)) * 0.1, dtype=torch.float32), image.tensor().unsqueeze(0))
            mod(torch.tensor(np.eye(D, D + 1)[None] + rng.normal(size=(1, D, D + 1)) * 0.05, dtype=torch.float32), image.tensor().unsqueeze(0))
            out = mod(None, image.tensor().unsqueeze(0))
            compare(ctx, "AlignImage(None) after other calls", out[0].numpy(), sref, tref, itk, data, mode, padding, info)
        with ctx.guard("TransformImage", **info):
            ctx.bucket("api/TransformImage")
            mod = TransformImage(tgrid, sgrid, sampling=mode, padding=padding if padding is not None else "zeros")
            out = mod(None, image.tensor().unsqueeze(0))
            compare(ctx, "TransformImage(None)", out[0].numpy(), sref, tref, itk, data, mode, padding, info)
            eye = torch.eye(D, D + 1).unsqueeze(0)
            out = mod(eye, image.tensor().unsqueeze(0))
            compare(ctx, "TransformImage(identity matrix)", out[0].numpy(), sref, tref, itk, data, mode, padding, info)
            zero = torch.zeros((1, D) + tuple(tgrid.shape))
            out = mod(zero, image.tensor().unsqueeze(0))
            compare(ctx, "TransformImage(zero flow)", out[0].numpy(), sref, tref, itk, data, mode, padding, info)
            mod(torch.tensor(rng.normal(size=(1, D, 1)) * 0.1, dtype=torch.float32), image.tensor().unsqueeze(0))
            out = mod(None, image.tensor().unsqueeze(0))
            compare(ctx, "TransformImage(None) after other calls", out[0].numpy(), sref, tref, itk, data, mode, padding, info)
    # (b) batches with shared / per-image source grids and shared / per-image target grids
    with ctx.guard("ImageBatch.sample(grids)"):
        ctx.bucket("api/ImageBatch.sample(grids)")
        N = int(rng.integers(2, 4))
        sps, datas, simgs = [sp], [data], [simg]
        for j in range(1, N):
            q = dict(sp)
            if i % 2:  # per-image source grids (same size)
                R, kind_ = gen.rand_direction(rng, D)
                q["direction"] = R.tolist()
                q["route"] = "center"
                q.pop("origin", None)
                q["center"] = gen.f32(sref.c + rng.normal(size=D)).tolist()
            dj = smooth_noise(rng, (C,) + shape).astype(np.float32).astype(np.float64)
            sps.append(q)
            datas.append(dj)
            simgs.append(sitk_image(q, dj))
        batch = ImageBatch(torch.tensor(np.stack(datas), dtype=torch.float32), [gen.make_grid(q) for q in sps])
        tp0 = target_params(rng, sref, D, "inside")
        per_image_targets = bool((i // 2) % 2)
        tps = [tp0]
        for j in range(1, N):
            if per_image_targets:
                q = target_params(rng, gen.ref_grid(sps[j]), D, "inside")
                q["size"] = tp0["size"]
                tps.append(q)
            else:
                tps.append(tp0)
        arg = [gen.make_grid(q) for q in tps] if per_image_targets else gen.make_grid(tp0)
        out = batch.sample(arg, mode=mode, padding=padding)
        ok = ctx.true("batch_sample_returns_batch_with_grid_per_item", isinstance(out, ImageBatch) and len(out.grids()) == N, got=type(out).__name__, n_grids=len(out.grids()) if isinstance(out, ImageBatch) else -1)
        if ok:
            for j in range(N):
                itk = itk_resample(simgs[j], tps[j], mode, default)
                ctx.true("batch_item_grid_is_target", out.grids()[j] == gen.make_grid(tps[j]), item=j)
                compare(ctx, "ImageBatch.sample", out.tensor()[j].numpy(), gen.ref_grid(sps[j]), gen.ref_grid(tps[j]), itk, datas[j], mode, padding, dict(item=j, per_image_sources=bool(i % 2), per_image_targets=per_image_targets))
        ctx.nontriv(sps, tps)
        # one target grid equal to the grid of the first image only: the other images still have to be resampled
        ctx.bucket("api/ImageBatch.sample(grid of first image)")
        out = batch.sample(batch.grid(0), mode=mode, padding=padding)
        ok = ctx.true("batch_sample_first_grid_shape", isinstance(out, ImageBatch) and out.shape[0] == N and len(out.grids()) == N and all(g == batch.grid(0) for g in out.grids()), key="ImageBatch.sample/first_grid/shape", got=list(out.shape))
        if ok:
            for j in range(N):
                itk = itk_resample(simgs[j], sps[0], mode, default)
                compare(ctx, "ImageBatch.sample(first image's grid)", out.tensor()[j].numpy(), gen.ref_grid(sps[j]), gen.ref_grid(sps[0]), itk, datas[j], mode, padding, dict(item=j, N=N, per_image_sources=bool(i % 2)))
    # (d) sampling an image on its own grid returns it unchanged
    with ctx.guard("identity"):
        ctx.bucket("api/identity")
        same = image.sample(sgrid, mode=mode, padding=padding)
        ctx.true("own_grid_identity", bool((same.tensor() == image.tensor()).all()) and same.grid() == sgrid)
        clone = image.sample(sgrid.clone(), mode=mode, padding=padding)
        ctx.true("equal_grid_identity", bool((clone.tensor() == image.tensor()).all()))
        # a grid of equal geometry built independently (not just a clone), via explicit resampling path
        ax = Axes.from_align_corners(sgrid.align_corners())
        own = image.sample(sgrid.coords(), mode=mode, padding=padding)
        ctx.close("own_coords_identity", own, image.tensor(), 2e-5 * (1 + float(np.abs(data).max())) * max(shape) / 8 + 1e-5)
        mod = SampleImage(sgrid, sgrid, sampling=mode, padding=padding)
        own2 = mod(sgrid.points(mod.axes()), image.tensor())
        ctx.close("SampleImage_own_grid_identity", own2, image.tensor(), 2e-5 * (1 + float(np.abs(data).max())) * max(shape) / 8 + 1e-5)
