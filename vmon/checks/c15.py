r"""C15 — no hidden mutation: functions leave inputs alone, copies leave originals alone."""

from __future__ import annotations

import copy as pycopy
import json
import os
import subprocess
import sys
import tempfile

import numpy as np

from .. import gen
from .. import registry as R
from .. import xforms as X
from ..monitor.funcmon import FunctionMonitor
from ..monitor.mutation import diff, snapshot, state_signature

PROPERTY = "C15"
RULE = (
    "(1) Registry: at least one call specification (usually 2-6 argument forms chosen to provoke aliasing: "
    "already-float contiguous input, non-contiguous / expanded views, steps=0, levels=0, zero margins, identical "
    "operands, integer dtypes, constant padding) for every tensor-taking public name of deepali.core.functional "
    "and deepali.losses.functional, in D=2 and D=3, each executed under the mutation monitor (version counter + "
    "byte digest of every tensor reachable from the arguments). (2) Every with-argument accessor of Grid, Cube, "
    "Image, ImageBatch, FlowField(s) and of each transform class (grid(g), data(p), condition(...), inverse(), "
    "link(), unlink(), matrix(m)) with a receiver snapshot (tensor identities, versions, bytes, scalar attributes) "
    "and a behavioural probe; deep copies modified on either side. (3) The repository's own tests run under the "
    "function monitor (pytest plugin). Thorough: quick workloads of C04, C06, C10-C14, C16, C17 run under the "
    "monitor as well. Non-trivial: every monitored call with at least one tensor argument; distinct = hash of "
    "(function, spec index, D) or (class, accessor)."
)
ASSUMPTIONS = [
    "torch's per-tensor version counter increments on every in-place kernel (also through views); a byte digest covers writes that bypass it",
    "documented in-place variants (inplace=True, out=) are exempt; returning a reference to an unmodified input is not a mutation",
    "exceptions raised by a call are recorded in the exceptions table (they belong to other properties; arguments are still compared after a raise); a public name without any monitored call makes the run inconclusive",
]
ANCHORS = [
    ("deepali.core.image", "grid_sample"),
    ("deepali.core.image", "conv"),
    ("deepali.core.image", "normalize_image"),
    ("deepali.core.flow", "jacobian_det"),
    ("deepali.core.flow", "divergence"),
    ("deepali.core.flow", "lie_bracket"),
    ("deepali.core.grid", "Grid.center"),
    ("deepali.core.grid", "Grid.clone"),
    ("deepali.core.cube", "Cube.center"),
    ("deepali.spatial.base", "SpatialTransform.__copy__"),
    ("deepali.spatial.base", "SpatialTransform.grid"),
    ("deepali.spatial.base", "SpatialTransform.condition"),
    ("deepali.spatial.parametric", "ParametricTransform.data"),
    ("deepali.spatial.parametric", "ParametricTransform.link"),
    ("deepali.spatial.parametric", "ParametricTransform.unlink"),
    ("deepali.data.image", "Image.__deepcopy__"),
    ("deepali.data.image", "ImageBatch.__deepcopy__"),
    ("deepali.data.tensor", "DataTensor.__deepcopy__"),
]
BUDGET = {"quick": 600, "thorough": 5400}
FOREIGN = ["c04", "c06", "c10", "c11", "c12", "c13", "c14", "c16", "c17"]


def plan(tier, seed):
    items = [["functional", D, part] for D in (2, 3) for part in range(4)]
    items += [["accessors", k] for k in range(6 if tier == "quick" else 40)]
    items += [["transforms", k] for k in range(16 if tier == "quick" else 160)]
    items += [["pytest"]]
    if tier == "thorough":
        for name in FOREIGN:
            items += [["foreign", name, k] for k in range(4)]
    return items


def mandatory(tier):
    return ["functional", "functional/flag_sweep", "functional/mask_sweep", "functional/special_values", "functional/tensor_options", "accessors/constructors", "accessors/Grid", "accessors/Cube", "accessors/Image", "accessors/ImageBatch", "accessors/FlowFields", "transforms", "transforms/composite_helpers", "transforms/composite_helpers/no_grad", "deepcopy", "pytest"]


def run_item(ctx, item):
    kind = item[0]
    if kind == "functional":
        return functional(ctx, item[1], item[2])
    if kind == "accessors":
        return accessors(ctx, item[1])
    if kind == "transforms":
        return transforms(ctx, item[1])
    if kind == "pytest":
        return pytest_item(ctx)
    if kind == "foreign":
        return foreign(ctx, item[1], item[2])


# ------------------------------------------------------------------------------------------------
def functional(ctx, D, part):
    from deepali.core import functional as U
    from deepali.losses import functional as LF

    rng = ctx.rng()
    core, grids, loss = R.core_specs(), R.grid_specs(), R.loss_specs()
    names = [("core", n, U) for n in U.__all__] + [("losses", n, LF) for n in LF.__all__]
    names = names[part::4]
    E = R.Env(rng, D)
    for ns, name, mod in names:
        specs = (core if ns == "core" else loss).get(name, []) + (grids.get(name, []) if ns == "core" else [])
        qual = f"{ns}.{name}"
        if not specs:
            if ns == "core" and name in R.NO_TENSOR_ARGS:
                ctx.count("names_without_tensor_arguments")
                continue
            ctx.inconclusive.append(f"no call specification for public name {qual}")
            continue
        fn = getattr(mod, name)
        done = 0
        # option sweep: the first specification again with every boolean keyword option flipped, one at a time
        # (in-place arithmetic often hides behind an option, e.g. binarize=True, normalize=False)
        flags = bool_flags(fn)
        variants = [(si, spec, None) for si, spec in enumerate(specs)] + [(0, specs[0], fl) for fl in flags]
        # optional weighting tensors (mask=, weight=, source_mask=, ...): each alone and all together, as float32
        # tensors the function could be tempted to combine in place
        mk = mask_params(fn)
        combos = [(m,) for m in mk] + ([tuple(m for m in mk if m != "mask")] if len([m for m in mk if m != "mask"]) > 1 else [])
        variants += [(0, specs[0], ("masks", c)) for c in combos]
        # special-valued first tensor: no-op arithmetic (scale 1, shift 0, clamp that changes nothing) is where a
        # function is tempted to keep working on the caller's tensor
        variants += [(0, specs[0], ("special", kind_)) for kind_ in ("unit_range", "constant", "zeros")]
        # numeric options (sigma=, spacing=) given as caller-owned per-axis tensors, alone and together with dims=
        variants += [(0, specs[0], ("tensor_option", o)) for o in tensor_options(fn)]
        for si, spec, flag in variants:
            try:
                args, kwargs = spec(E)
            except Exception as e:  # noqa: BLE001  (spec does not apply to this D)
                ctx.count("spec_not_applicable")
                continue
            if flag is not None and flag[0] == "tensor_option":
                import torch

                oname, with_dims = flag[1]
                if oname in kwargs:
                    continue
                kwargs = dict(kwargs, **{oname: torch.tensor([0.8, 1.1, 0.9][:D], dtype=torch.float32)})
                if with_dims:
                    kwargs["dims"] = [0]
                ctx.bucket("functional/tensor_options")
            elif flag is not None and flag[0] == "special":
                import torch

                j = next((k_ for k_, a in enumerate(args) if isinstance(a, torch.Tensor) and type(a) is torch.Tensor and a.is_floating_point() and a.ndim >= 3), None)
                if j is None:
                    continue
                a = args[j].detach().clone().contiguous()
                if flag[1] == "unit_range":
                    a = (a - a.min()) / (a.max() - a.min())
                elif flag[1] == "constant":
                    a = torch.full_like(a, 0.5)
                else:
                    a = torch.zeros_like(a)
                args = tuple(a if k_ == j else v for k_, v in enumerate(args))
                ctx.bucket("functional/special_values")
            elif flag is not None and flag[0] == "masks":
                kwargs = {k: v for k, v in kwargs.items() if k not in mk}
                for j, m in enumerate(flag[1]):
                    kwargs[m] = E.mask if j % 2 == 0 else E.mask_b
                ctx.bucket("functional/mask_sweep")
            elif flag is not None:
                if flag[0] in kwargs:
                    continue
                kwargs = dict(kwargs, **{flag[0]: flag[1]})
                ctx.bucket("functional/flag_sweep")
            snap = snapshot((args, kwargs))
            if not snap:
                continue
            raised = None
            try:
                fn(*args, **kwargs)
            except Exception as e:  # noqa: BLE001
                raised = e
                ctx.exceptions[f"{qual}:{type(e).__name__}"] += 1
            changes = diff(snap)
            ctx.bucket("functional")
            ctx.count(f"monitored/{qual}")
            ctx.nontriv(qual, si, D)
            ctx.true("arguments_not_mutated", not changes, key=f"mutation/{qual}", function=qual, spec=si, flag=list(flag) if flag else None, D=D, changes=changes, raised=type(raised).__name__ if raised else None, kwargs=sorted(kwargs))
            if changes:
                E = R.Env(rng, D)
            done += 1  # monitored (snapshot + diff) whether or not the call raised
        if done == 0 and D == 2:
            ctx.inconclusive.append(f"no monitored call for public name {qual} (D={D})")
    if part == 0 and D == 2:
        ctx.sample({"function": "core.grid_sample", "specs": "7 argument forms incl. padding=1.5 on float32/float64/int16/non-contiguous input"})


def bool_flags(fn):
    r"""(name, flipped value) for every keyword parameter of ``fn`` with a boolean default, except documented in-place switches."""
    import inspect

    try:
        sig = inspect.signature(fn)
    except (TypeError, ValueError):
        return []
    out = []
    for n, prm in sig.parameters.items():
        if isinstance(prm.default, bool) and n not in ("inplace", "in_place"):
            out.append((n, not prm.default))
    return out


def tensor_options(fn):
    r"""(option name, also pass dims=) for numeric options that accept one value per axis."""
    import inspect

    try:
        prm = inspect.signature(fn).parameters
    except (TypeError, ValueError):
        return []
    out = []
    for n in ("sigma", "spacing"):
        if n in prm and prm[n].kind in (prm[n].KEYWORD_ONLY, prm[n].POSITIONAL_OR_KEYWORD):
            out.append((n, False))
            if "dims" in prm:
                out.append((n, True))
    return out


def mask_params(fn):
    r"""Names of optional (default None) keyword parameters that take a weighting tensor."""
    import inspect

    try:
        sig = inspect.signature(fn)
    except (TypeError, ValueError):
        return []
    return [n for n, prm in sig.parameters.items() if prm.default is None and (n == "weight" or n.endswith("mask"))]


# ------------------------------------------------------------------------------------------------
def observe(ctx, label, obj, call, allow_same=True, probe=None, watch=None, must_succeed=False):
    r"""Call a non-underscore accessor on ``obj``; the receiver must be left exactly as it was."""
    snap = snapshot(obj)
    snap_args = snapshot(watch) if watch is not None else None
    sig = state_signature(obj)
    before = None
    if probe:
        try:
            before = probe(obj)
        except Exception as e:  # noqa: BLE001  (the probe evaluates the object: same standing as the call itself)
            ctx.exceptions[f"{label}:probe:{type(e).__name__}"] += 1
            if must_succeed:
                ctx.true("accessor_succeeds", False, key=f"exc/{label}", accessor=label, raised=f"{type(e).__name__}: {e}"[:300])
            probe = None
    res = None
    exc = None
    try:
        res = call(obj)
    except Exception as e:  # noqa: BLE001
        exc = e
        ctx.exceptions[f"{label}:{type(e).__name__}"] += 1
    changes = diff(snap)
    if must_succeed:
        ctx.true("accessor_succeeds", exc is None, key=f"exc/{label}", accessor=label, raised=f"{type(exc).__name__}: {exc}"[:300] if exc else None)
    if snap_args is not None:
        arg_changes = diff(snap_args)
        ctx.true("accessor_arguments_not_mutated", not arg_changes, key=f"argument/{label}/mutated", accessor=label, changes=arg_changes)
    sig2 = state_signature(obj)
    # u, v (displacement / velocity) and p (predicted parameters) are documented caches recomputed by update()
    cache = (".u", ".v", ".p")
    moved = sorted(k for k in set(sig) | set(sig2) if sig.get(k) != sig2.get(k) and not k.endswith(cache))
    ctx.count(f"monitored/{label}")
    ctx.nontriv(label)
    ctx.true("receiver_tensors_not_mutated", not changes, key=f"receiver/{label}/mutated", accessor=label, changes=changes, raised=type(exc).__name__ if exc else None)
    ctx.true("receiver_state_unchanged", not moved, key=f"receiver/{label}/state", accessor=label, changed=moved[:8], raised=type(exc).__name__ if exc else None)
    if probe and exc is None:
        try:
            after = probe(obj)
        except Exception as e:  # noqa: BLE001
            ctx.true("receiver_still_evaluates_after_accessor", False, key=f"receiver/{label}/behaviour", accessor=label, raised=f"{type(e).__name__}: {e}"[:300])
            return res
        same = len(before) == len(after) and all(a.shape == b.shape and bool((a == b).all()) for a, b in zip(before, after))
        ctx.true("receiver_behaviour_unchanged", same, key=f"receiver/{label}/behaviour", accessor=label)
    return res


def accessors(ctx, k):
    import torch
    from deepali.core.cube import Cube
    from deepali.core.grid import Axes, Grid
    from deepali.data.flow import FlowField, FlowFields
    from deepali.data.image import Image, ImageBatch

    rng = ctx.rng()
    D = 2 if k % 2 == 0 else 3
    p = gen.rand_grid_params(rng, D, max_size=12 if D == 2 else 8, min_size=6, big_offset=False)
    g = gen.make_grid(p)
    n = list(g.size())
    vec = torch.tensor(rng.normal(size=D), dtype=torch.float32)
    R_, _ = gen.rand_direction(rng, D, "rot")
    Rt = torch.tensor(R_, dtype=torch.float32)
    ctx.bucket("accessors/Grid")
    calls = {
        "center": lambda o: o.center(vec), "center_args": lambda o: o.center(*[float(v) for v in vec]), "origin": lambda o: o.origin(vec),
        "spacing": lambda o: o.spacing(0.5), "spacing_vec": lambda o: o.spacing(vec.abs() + 0.1), "direction": lambda o: o.direction(Rt),
        "align_corners": lambda o: o.align_corners(not o.align_corners()), "resize": lambda o: o.resize([m + 2 for m in n]), "resize_same": lambda o: o.resize(n),
        "reshape": lambda o: o.reshape([m + 1 for m in n][::-1]), "resample": lambda o: o.resample(0.7), "resample_same": lambda o: o.resample(o.spacing()),
        "downsample": lambda o: o.downsample(1), "upsample": lambda o: o.upsample(1), "pyramid": lambda o: o.pyramid(2), "crop": lambda o: o.crop(1), "crop0": lambda o: o.crop(0),
        "pad": lambda o: o.pad(margin=2), "center_crop": lambda o: o.center_crop(4), "center_pad": lambda o: o.center_pad(15), "narrow": lambda o: o.narrow(0, 1, 3),
        "region_of_interest": lambda o: o.region_of_interest(1, 3), "pool": lambda o: o.pool(2), "clone": lambda o: o.clone(), "cube": lambda o: o.cube(), "coords": lambda o: o.coords(),
        "points": lambda o: o.points(), "transform": lambda o: o.transform(Axes.GRID, Axes.WORLD), "transform_vec": lambda o: o.transform(Axes.CUBE, Axes.CUBE_CORNERS, vectors=True),
        "transform_points": lambda o: o.transform_points(vec.expand(3, D), Axes.GRID, Axes.WORLD), "transform_vectors": lambda o: o.transform_vectors(vec.expand(3, D), Axes.CUBE, Axes.CUBE_CORNERS),
        "transform_vectors_world": lambda o: o.transform_vectors(vec.expand(3, D), Axes.WORLD, Axes.CUBE), "numpy": lambda o: o.numpy(), "deepcopy": lambda o: pycopy.deepcopy(o), "eq": lambda o: o == o.clone(),
        "same_domain_as": lambda o: o.same_domain_as(o.resize([m + 1 for m in n])), "origin_get": lambda o: o.origin(), "extent": lambda o: o.extent(), "cube_extent": lambda o: o.cube_extent(),
    }
    # maps that change nothing geometrically (same axes, same grid): the caller's points are still the caller's
    pts = torch.tensor(rng.normal(size=(5, D)) * 0.37, dtype=torch.float32)
    pts64 = pts.double()
    calls.update({
        "transform_points_same_axes_grid": lambda o: o.transform_points(pts, Axes.GRID, Axes.GRID), "transform_points_same_axes_cube": lambda o: o.transform_points(pts, Axes.CUBE, Axes.CUBE),
        "transform_points_same_axes_corners": lambda o: o.transform_points(pts64, Axes.CUBE_CORNERS, Axes.CUBE_CORNERS), "transform_points_same_axes_to_clone": lambda o: o.transform_points(pts, Axes.CUBE, Axes.CUBE, to_grid=o.clone()),
        "apply_transform_same_axes_decimals": lambda o: o.apply_transform(pts, Axes.WORLD, Axes.WORLD, decimals=2), "transform_vectors_same_axes": lambda o: o.transform_vectors(pts, Axes.CUBE, Axes.CUBE),
        "transform_points_contiguous": lambda o: o.transform_points(pts, Axes.CUBE, Axes.WORLD), "cube_to_index": lambda o: o.cube_to_index(pts), "world_to_cube": lambda o: o.world_to_cube(pts64),
    })
    watch = [vec, Rt, pts, pts64]
    for name, call in calls.items():
        observe(ctx, f"Grid.{name}", g, call, watch=watch)
    # constructors and factory functions given caller-owned tensors
    sz = torch.tensor([float(m) for m in n])
    sp = vec.abs() + 0.5
    ctor = {
        "Grid(origin)": lambda o: Grid(size=sz, origin=vec, spacing=sp, direction=Rt), "Grid(center)": lambda o: Grid(size=sz, center=vec, spacing=sp, direction=Rt),
        "Grid(shape)": lambda o: Grid(shape=tuple(n[::-1]), center=vec), "Cube(center)": lambda o: Cube(extent=sp, center=vec, direction=Rt), "Cube(origin)": lambda o: Cube(extent=sp, origin=vec, direction=Rt),
        "Grid.from_numpy": lambda o: Grid.from_numpy(o.numpy()), "center_": lambda o: o.clone().center_(vec), "origin_": lambda o: o.clone().origin_(vec), "spacing_": lambda o: o.clone().spacing_(sp), "direction_": lambda o: o.clone().direction_(Rt),
    }
    ctx.bucket("accessors/constructors")
    for name, call in ctor.items():
        observe(ctx, f"Grid/{name}", g, call, watch=[vec, Rt, sz, sp])
    # results that are tensors of the grid must not be writable aliases used by later calls: modify copies
    c = g.clone()
    snap = snapshot(g)
    with torch.no_grad():
        c._center.add_(1.0)
        c._spacing.mul_(2.0)
        c._direction.neg_()
        c._size.add_(1)
    ctx.bucket("deepcopy")
    ctx.true("clone_is_independent_of_original", not diff(snap), key="copy/Grid.clone", changes=diff(snap))
    d = pycopy.deepcopy(g)
    snap_d = snapshot(d)
    with torch.no_grad():
        g2 = g.clone()
        g2._center.add_(1.0)
    ctx.true("deepcopy_is_independent", not diff(snap_d), key="copy/Grid.deepcopy")
    # --- plain DataTensor
    from deepali.data.tensor import DataTensor

    dt = DataTensor(torch.tensor(rng.normal(size=(3, 4)), dtype=torch.float32))
    dd = observe(ctx, "DataTensor.deepcopy", dt, lambda o: pycopy.deepcopy(o))
    snap = snapshot(dt)
    with torch.no_grad():
        dd.add_(1)
    ctx.true("modifying_deepcopy_leaves_original", not diff(snap) and type(dd) is DataTensor, key="copy/DataTensor.deepcopy")
    observe(ctx, "DataTensor.copy", dt, lambda o: pycopy.copy(o))
    observe(ctx, "DataTensor.tensor", dt, lambda o: o.tensor())
    # --- Cube
    ctx.bucket("accessors/Cube")
    cube = g.cube()
    ccalls = {
        "center": lambda o: o.center(vec), "origin": lambda o: o.origin(vec), "direction": lambda o: o.direction(Rt), "extent": lambda o: o.extent(vec.abs() + 1),
        "grid": lambda o: o.grid(size=tuple(n)), "grid_spacing": lambda o: o.grid(spacing=o.extent() / 4, align_corners=False), "clone": lambda o: o.clone(),
        "transform": lambda o: o.transform(Axes.CUBE, Axes.WORLD), "cube_to_world": lambda o: o.cube_to_world(vec.expand(2, D)), "world_to_cube": lambda o: o.world_to_cube(vec.expand(2, D)),
        "deepcopy": lambda o: pycopy.deepcopy(o), "numpy": lambda o: o.numpy(),
    }
    for name, call in ccalls.items():
        observe(ctx, f"Cube.{name}", cube, call, watch=watch)
    cc = cube.clone()
    snap = snapshot(cube)
    with torch.no_grad():
        cc._center.add_(1.0)
        cc._extent.mul_(2.0)
    ctx.true("clone_is_independent_of_original", not diff(snap), key="copy/Cube.clone", changes=diff(snap))
    # --- Image / ImageBatch / FlowFields
    shape = tuple(g.shape)
    other = gen.make_grid(dict(p, align_corners=not p["align_corners"]))
    tgt = g.resize([m + 2 for m in n])
    kernel = torch.tensor([0.25, 0.5, 0.25])
    for cls_name in ("Image", "ImageBatch", "FlowFields", "FlowField"):
        ctx.bucket(f"accessors/{'FlowFields' if cls_name.startswith('Flow') else cls_name}")
        if cls_name == "Image":
            obj = Image(torch.tensor(rng.uniform(0, 1, size=(2,) + shape), dtype=torch.float32), g)
        elif cls_name == "ImageBatch":
            obj = ImageBatch(torch.tensor(rng.uniform(0, 1, size=(2, 2) + shape), dtype=torch.float32), [g, g.center(vec)])
        elif cls_name == "FlowFields":
            obj = FlowFields(torch.tensor(rng.normal(size=(2, D) + shape) * 0.05, dtype=torch.float32), [g, g.center(vec)])
        else:
            obj = FlowField(torch.tensor(rng.normal(size=(D,) + shape) * 0.05, dtype=torch.float32), g)
        batched = cls_name in ("ImageBatch", "FlowFields")
        icalls = {
            "grid": lambda o: o.grid(other) if not batched else o.grid([other, other]), "resize": lambda o: o.resize([m + 2 for m in n]), "resize_same": lambda o: o.resize(n),
            "resample": lambda o: o.resample(0.8 * float(g.spacing().min())) if not batched else None, "downsample": lambda o: o.downsample(1), "downsample0": lambda o: o.downsample(0),
            "upsample": lambda o: o.upsample(1), "upsample0": lambda o: o.upsample(0), "pyramid": lambda o: o.pyramid(2), "crop": lambda o: o.crop(margin=1), "crop0": lambda o: o.crop(margin=0),
            "pad": lambda o: o.pad(margin=1), "pad0": lambda o: o.pad(margin=0), "center_crop": lambda o: o.center_crop(4), "center_crop_noop": lambda o: o.center_crop(100),
            "center_pad": lambda o: o.center_pad(15), "center_pad_noop": lambda o: o.center_pad(1), "region_of_interest": lambda o: o.region_of_interest(1, 3),
            "narrow": lambda o: o.narrow(o.ndim - 1, 1, 3), "avg_pool": lambda o: o.avg_pool(2), "conv": lambda o: o.conv(kernel), "sample_grid": lambda o: o.sample(tgt),
            "sample_own": lambda o: o.sample(g) if not batched else o.sample(list(o.grids())), "normalize": lambda o: o.normalize(), "rescale": lambda o: o.rescale(0, 1),
            "deepcopy": lambda o: pycopy.deepcopy(o), "copy": lambda o: pycopy.copy(o), "tensor": lambda o: o.tensor(), "add": lambda o: o + 1, "clone": lambda o: o.clone(), "float": lambda o: o.float(),
            # the same operations with the align_corners convention overridden for this call only
            "resize(ac)": lambda o: o.resize([m + 2 for m in n], align_corners=not g.align_corners()), "downsample(ac)": lambda o: o.downsample(1, align_corners=not g.align_corners()),
            "upsample(ac)": lambda o: o.upsample(1, align_corners=not g.align_corners()), "pyramid(ac)": lambda o: o.pyramid(2, align_corners=not g.align_corners()),
        }
        if cls_name.startswith("Flow"):
            icalls.update({
                "axes_world": lambda o: o.axes(Axes.WORLD), "axes_grid": lambda o: o.axes(Axes.GRID), "axes_same": lambda o: o.axes(o.axes()), "exp": lambda o: o.exp(steps=2),
                "exp0": lambda o: o.exp(steps=0), "curl": lambda o: o.curl(),
                "warp_image": lambda o: o.warp_image(Image(torch.ones((1,) + shape), g) if not batched else ImageBatch(torch.ones((2, 1) + shape), list(o.grids()))),
            })
        for name, call in icalls.items():
            observe(ctx, f"{cls_name}.{name}", obj, call, watch=[kernel, other, tgt])
        # deep copy independence in both directions
        ctx.bucket("deepcopy")
        d = pycopy.deepcopy(obj)
        snap_o, snap_d = snapshot(obj), snapshot(d)
        with torch.no_grad():
            d.add_(1.0)
            for gg in (d.grids() if batched else [d.grid()]):
                gg._center.add_(1.0)
        ctx.true("modifying_deepcopy_leaves_original", not diff(snap_o), key=f"copy/{cls_name}.deepcopy", changes=diff(snap_o))
        d2 = pycopy.deepcopy(obj)
        snap_d2 = snapshot(d2)
        with torch.no_grad():
            obj.mul_(0.5)
            for gg in (obj.grids() if batched else [obj.grid()]):
                gg._spacing.mul_(2.0)
        ctx.true("modifying_original_leaves_deepcopy", not diff(snap_d2), key=f"copy/{cls_name}.deepcopy", changes=diff(snap_d2))
        ctx.true("deepcopy_preserves_type_and_axes", type(d2) is type(obj) and (not cls_name.startswith("Flow") or d2.axes() is obj.axes()), key=f"copy/{cls_name}.type", got=type(d2).__name__)


def probe_of(x):
    import torch

    def probe(t):
        with torch.no_grad():
            t.update()
            return [t.forward(x).clone()]

    return probe


def safe_deepcopy(ctx, m, kind):
    r"""deepcopy; if torch refuses (graph-attached cache buffers), record it and copy after clearing the caches."""
    try:
        return pycopy.deepcopy(m)
    except RuntimeError as e:
        ctx.evaluations += 1
        ctx.violation("deepcopy_of_transform_succeeds", f"exc/deepcopy/{'linear' if m.linear else 'nonrigid'}[{kind}]", exc=str(e)[:200], transform=type(m).__name__)
        m.clear_buffers()
        c = pycopy.deepcopy(m)
        m.update()
        return c


def transforms(ctx, k):
    import torch
    from deepali import spatial as S

    rng = ctx.rng()
    name = X.ALL[k % len(X.ALL)]
    kind = X.KINDS[(k // len(X.ALL)) % 3]
    D = 3 if name in X.ONLY_3D or k % 3 == 0 else 2
    gp = gen.rand_grid_params(rng, D, max_size=10 if D == 2 else 7, min_size=6, big_offset=False, align_corners=True)
    g = gen.make_grid(gp)
    ctx.bucket("transforms")
    t, info = X.make(rng, name, g, groups=1, kind=kind)
    x = torch.tensor(rng.uniform(-0.8, 0.8, size=(1, 7, D)), dtype=torch.float32)
    probe = probe_of(x)
    g2 = g.resize(tuple(2 * m - 1 for m in g.size()))
    label = f"{name}[{kind}]"
    observe(ctx, f"transform.grid/{label}", t, lambda o: o.grid(g2), probe=probe)
    if "FreeForm" not in name:
        g3 = g.align_corners(not g.align_corners())
        observe(ctx, f"transform.grid(flip_align_corners)/{label}", t, lambda o: o.grid(g3), probe=probe)
    observe(ctx, f"transform.condition/{label}", t, lambda o: o.condition(0.5), probe=probe)
    observe(ctx, f"transform.disp/{label}", t, lambda o: o.disp(), probe=probe)
    observe(ctx, f"transform.flow/{label}", t, lambda o: o.flow(g2), probe=probe)
    observe(ctx, f"transform.call/{label}", t, lambda o: o(x), probe=probe)
    observe(ctx, f"transform.copy/{label}", t, lambda o: pycopy.copy(o), probe=probe)
    if name in X.INVERTIBLE:
        for link in (False, True):
            observe(ctx, f"transform.inverse(link={link})/{label}", t, lambda o: o.inverse(link=link, update_buffers=True), probe=probe)
            inv = t.inverse(link=link)
            observe(ctx, f"inverse.call/{label}", t, lambda o: inv(x), probe=probe)
    leaves = [m for m in t.modules() if isinstance(m, S.ParametricTransform)]
    for m in leaves:
        mlabel = f"{type(m).__name__}[{kind}]"
        if kind != "callable":
            new = m.params.detach().clone() * 0.5
            if isinstance(m, S.HomogeneousTransform) or "Scaling" in type(m).__name__ or "Quaternion" in type(m).__name__:
                new = m.params.detach().clone()
                new = new + 0.01
            res = observe(ctx, f"transform.data(arg)/{mlabel}", m, lambda o: o.data(new), probe=lambda o: [o.update().tensor().detach().clone()])
            if res is not None:
                ctx.true("data_arg_returns_copy_with_new_parameters", res is not m and bool((res.data().detach() == new).all()), key=f"receiver/transform.data(arg)/{mlabel}/result")
        other = safe_deepcopy(ctx, m, kind)
        observe(ctx, f"transform.link/{mlabel}", m, lambda o: o.link(other), probe=lambda o: [o.update().tensor().detach().clone()])
        observe(ctx, f"transform.unlink/{mlabel}", m, lambda o: o.unlink(), probe=lambda o: [o.update().tensor().detach().clone()])
        if isinstance(m, S.LinearTransform) and kind != "callable":
            mat = m.matrix().detach().clone()
            try_mat = mat[:, :D, :D] if not isinstance(m, (S.HomogeneousTransform,)) else mat
            if isinstance(m, (S.EulerRotation, S.QuaternionRotation, S.HomogeneousTransform)) and (D == 3 or not isinstance(m, S.QuaternionRotation)):
                observe(ctx, f"transform.matrix(arg)/{mlabel}", m, lambda o: o.matrix(try_mat), probe=lambda o: [o.update().tensor().detach().clone()])
    # deep copy independence
    ctx.bucket("deepcopy")
    with ctx.guard("deepcopy(transform)", key=f"exc/deepcopy/{'nonrigid' if not t.linear else 'linear'}[{kind}]", transform=label):
        d = safe_deepcopy(ctx, t, kind)
        snap_t = snapshot(t)
        with torch.no_grad():
            for p_ in d.parameters():
                p_.add_(0.1)
            for b in d.buffers():
                if b.is_floating_point():
                    b.add_(0.1)
        ctx.true("modifying_deepcopy_leaves_original", not diff(snap_t), key=f"copy/transform.deepcopy/{name}", changes=diff(snap_t))
        snap_d = snapshot(d)
        with torch.no_grad():
            for p_ in t.parameters():
                p_.mul_(0.9)
        ctx.true("modifying_original_leaves_deepcopy", not diff(snap_d), key=f"copy/transform.deepcopy/{name}", changes=diff(snap_d))
    # composite helpers that may alias member parameters
    if t.linear:
        seq = S.SequentialTransform(t, safe_deepcopy(ctx, t, kind))
        ml = S.MultiLevelTransform(t, safe_deepcopy(ctx, t, kind))
        # evaluated with and without autograd recording: an in-place accumulation into a member's parameter raises
        # under autograd and silently changes the member without it
        for rec in (True, False):
            tag = label if rec else f"{label}/no_grad"
            twice = lambda o: [o.tensor().detach().clone()]  # noqa: E731
            with torch.set_grad_enabled(rec):
                observe(ctx, f"Sequential.tensor/{tag}", seq, lambda o: o.tensor(), probe=twice, must_succeed=True)
                observe(ctx, f"MultiLevel.tensor/{tag}", ml, lambda o: o.tensor(), probe=twice, must_succeed=True)
                observe(ctx, f"MultiLevel.call/{tag}", ml, lambda o: o(x), probe=twice, must_succeed=True)
                observe(ctx, f"MultiLevel.disp/{tag}", ml, lambda o: o.disp(), probe=twice, must_succeed=True)
            ctx.bucket("transforms/composite_helpers" + ("" if rec else "/no_grad"))
    ctx.sample({"transform": label, "accessors": "grid, condition, disp, flow, call, copy, inverse, data(arg), link, unlink, matrix(arg)"}) if k == 0 else None


# ------------------------------------------------------------------------------------------------
def pytest_item(ctx):
    r"""Run the repository's own tests with the function monitor installed (vmon.pytest_plugin)."""
    here = os.path.dirname(os.path.dirname(os.path.dirname(os.path.abspath(__file__))))
    src = os.path.abspath(os.environ.get("VMON_REPO_SRC", "/repo/src"))
    repo = os.path.dirname(src)
    with tempfile.TemporaryDirectory(prefix="vmon-c15-") as tmp:
        out = os.path.join(tmp, "events.json")
        env = dict(os.environ, VMON_PLUGIN_OUT=out, PYTHONPATH=os.pathsep.join([here, src]))
        try:
            r = subprocess.run([sys.executable, "-m", "pytest", "-q", "-x", "-p", "no:cacheprovider", "-p", "vmon.pytest_plugin", os.path.join(repo, "tests")], cwd=repo, env=env, capture_output=True, text=True, timeout=900)
        except subprocess.TimeoutExpired:
            ctx.inconclusive.append("pytest under the function monitor timed out")
            return
        if not os.path.exists(out):
            ctx.inconclusive.append("pytest plugin wrote no event file: " + (r.stdout + r.stderr)[-500:])
            return
        with open(out) as f:
            ev = json.load(f)
    ctx.bucket("pytest", ev["monitored_calls"])
    ctx.count("pytest_monitored_calls", ev["monitored_calls"])
    ctx.count("pytest_functions_observed", len(ev["calls"]))
    ctx.notes["pytest_summary"] = (r.stdout.strip().splitlines() or [""])[-1][:200]
    ctx.evaluations += ev["monitored_calls"]
    for v in ev["violations"]:
        ctx.violation("arguments_not_mutated", f"mutation/{v['function']}", function=v["function"], changes=v["changes"], test=v.get("test"), via="repository tests")
    if "passed" not in ctx.notes["pytest_summary"]:
        ctx.inconclusive.append("repository tests did not pass under the monitor: " + ctx.notes["pytest_summary"])


def foreign(ctx, name, k):
    r"""Thorough tier: run part of another check's quick workload while the function monitor reports to this context."""
    import importlib

    from ..core import Ctx

    mod = importlib.import_module(f"vmon.checks.{name}")

    def report(qual, changes, info):
        ctx.violation("arguments_not_mutated", f"mutation/{qual}", function=qual, changes=changes, via=f"workload of {name.upper()}", **info)

    mon = FunctionMonitor(report).install()
    try:
        items = [it for it in mod.plan("quick", ctx.seed) if it[0] == "case"][k::4][:6]
        sub = Ctx(mod.PROPERTY, "quick", ctx.seed)
        setup = getattr(mod, "setup", None)
        if setup:
            setup(sub)
        for it in items:
            sub.item = it
            try:
                mod.run_item(sub, it)
            except Exception as e:  # noqa: BLE001
                ctx.exceptions[f"foreign/{name}:{type(e).__name__}"] += 1
        teardown = getattr(mod, "teardown", None)
        if teardown:
            teardown(sub)
    finally:
        mon.uninstall()
    n = sum(mon.calls.values())
    ctx.evaluations += n
    ctx.bucket(f"foreign/{name}", n)
    ctx.count("foreign_monitored_calls", n)
