r"""C02 — grid <-> world convention agrees with ITK for every oriented image geometry."""

from __future__ import annotations

import os
import tempfile

import numpy as np

from .. import gen
from ..oracle.coords import GRID, WORLD, RefGrid

PROPERTY = "C02"
RULE = (
    "Each case draws an image geometry (D in {2,3}, size 1..64, anisotropic spacing, origin 0/O(1)/O(100), "
    "direction identity / signed axis permutation / random proper rotation), builds a SimpleITK image with "
    "it and a deepali Grid through both routes (origin=, center= computed by ITK) and compares 48 continuous "
    "indices (inside and up to 1.5x outside) and physical points against ITK's "
    "TransformContinuousIndexToPhysicalPoint / TransformPhysicalPointToContinuousIndex, plus all header "
    "conversions (Grid.from_sitk, Image.sitk, Image.from_sitk, Grid.from_file/from_reader for mha/nii.gz/nrrd). "
    "Non-trivial: rotated, anisotropic or off-centre geometry; distinct = hash of the geometry."
)
ASSUMPTIONS = [
    "SimpleITK 2.5 is the reference implementation of the ITK image geometry convention",
    "grid attributes are float32 in deepali: tolerance 64*eps32*forward bound (|origin| + extent + |x|)",
]
ANCHORS = [
    ("deepali.core.grid", "Grid.__init__"),
    ("deepali.core.grid", "Grid.origin"),
    ("deepali.core.grid", "Grid.origin_"),
    ("deepali.core.grid", "Grid.affine"),
    ("deepali.core.grid", "Grid.inverse_affine"),
    ("deepali.core.grid", "Grid.direction_"),
    ("deepali.core.grid", "Grid.from_sitk"),
    ("deepali.core.grid", "Grid.from_reader"),
    ("deepali.core.grid", "Grid.from_file"),
    ("deepali.utils.simpleitk.grid", "GridAttrs.transform"),
    ("deepali.utils.simpleitk.grid", "GridAttrs.inverse_transform"),
    ("deepali.utils.simpleitk.grid", "GridAttrs.center"),
    ("deepali.data.image", "Image.sitk"),
    ("deepali.data.image", "Image.from_sitk"),
    ("deepali.utils.simpleitk.torch", "image_from_tensor"),
    ("deepali.utils.simpleitk.torch", "tensor_from_image"),
]
N_CASES = {"quick": 240, "thorough": 40000}
BUDGET = {"quick": 300, "thorough": 3000}


def plan(tier, seed):
    return [["case", i] for i in range(N_CASES[tier])]


def mandatory(tier):
    return [
        "route/origin", "route/center", "dir/identity", "dir/perm", "dir/rot", "D/2", "D/3",
        "from_sitk", "image_sitk", "from_file", "index_outside", "index_inside", "grid_attrs", "grid_attrs/interpolate", "attribute_history",
        "file_route/.mha", "file_route/.nii.gz", "file_route/.nrrd", "file_route/.mhd",
    ]


def run_item(ctx, item):
    import SimpleITK as sitk
    import torch
    from deepali.core.grid import Grid
    from deepali.data.image import Image

    i = item[1]
    rng = ctx.rng()
    D = int(rng.choice([2, 3]))
    p = gen.rand_grid_params(rng, D, max_size=64 if D == 2 else 32, min_size=1 if i % 7 == 0 else 2, route="origin")
    size, spacing, direction, origin = p["size"], p["spacing"], np.asarray(p["direction"]), p["origin"]
    if gen.grid_nontrivial(p):
        ctx.nontriv(p)
    ctx.sample(p)
    ctx.bucket(f"D/{D}")
    ctx.bucket("dir/" + {"smallrot": "rot"}.get(p["direction_kind"], p["direction_kind"]))
    img = sitk.Image([int(n) for n in size], sitk.sitkFloat32)
    img.SetOrigin([float(x) for x in origin])
    img.SetSpacing([float(x) for x in spacing])
    img.SetDirection([float(x) for x in direction.flatten()])
    ref = RefGrid(size, spacing, direction, origin=origin)
    n = ref.n
    eps, K = 1.2e-7, 64.0

    itk_center = np.array(img.TransformContinuousIndexToPhysicalPoint([float((k - 1) / 2) for k in size]))
    grids = {}
    with ctx.guard("Grid(origin=)", params=p):
        grids["origin"] = Grid(
            size=tuple(size), origin=tuple(float(x) for x in origin), spacing=tuple(float(x) for x in spacing),
            direction=torch.tensor(direction, dtype=torch.float32), align_corners=p["align_corners"],
        )
    with ctx.guard("Grid(center=)", params=p):
        grids["center"] = Grid(
            size=tuple(size), center=tuple(float(x) for x in itk_center), spacing=tuple(float(x) for x in spacing),
            direction=torch.tensor(direction, dtype=torch.float32), align_corners=p["align_corners"],
        )
    # continuous indices inside and outside
    idx_in = rng.uniform(0, 1, size=(24, D)) * (n - 1)
    idx_out = rng.uniform(-0.5, 1.5, size=(24, D)) * n
    idx = gen.f32(np.concatenate([idx_in, idx_out, np.zeros((1, D)), (n - 1)[None], ((n - 1) / 2)[None]]))
    ctx.bucket("index_inside", 24)
    ctx.bucket("index_outside", 24)
    phys = np.array([img.TransformContinuousIndexToPhysicalPoint([float(c) for c in row]) for row in idx])
    back = np.array([img.TransformPhysicalPointToContinuousIndex([float(c) for c in row]) for row in phys])
    wtol = ref.tol(np.abs(idx), GRID, WORLD, eps=eps, k=K) + 1e-9
    itol = ref.tol(np.abs(phys), WORLD, GRID, eps=eps, k=K) + 1e-9  # floor: the bound is exactly 0 where every term vanishes
    for route, g in grids.items():
        ctx.bucket(f"route/{route}")
        info = dict(route=route)
        with ctx.guard("Grid.index_to_world", **info):
            for dtype in (torch.float32, torch.float64):
                w = g.index_to_world(torch.tensor(idx, dtype=dtype))
                ctx.close("index_to_world_vs_itk", w, phys, wtol, dtype=str(dtype), **info)
            j = g.world_to_index(torch.tensor(phys, dtype=torch.float64), decimals=None)
            ctx.close("world_to_index_vs_itk", j, back, itol, **info)
            j = g.world_to_index(torch.tensor(phys, dtype=torch.float64))
            ctx.close("world_to_index_default_rounding_vs_itk", j, back, itol + 1e-6, **info)
            # origin is the position of sample 0; centre consistent with it
            ctx.close("origin_is_itk_origin", g.origin(), np.array(img.GetOrigin()), wtol.max(axis=0), **info)
            ctx.close("center_is_itk_mid_index", g.center(), itk_center, wtol.max(axis=0), **info)
            # direction columns are the unit steps along each axis
            E = np.eye(D)
            steps = g.index_to_world(torch.tensor(E, dtype=torch.float64)).double().numpy() - g.index_to_world(torch.zeros(1, D, dtype=torch.float64)).double().numpy()
            itk_steps = np.array([np.array(img.TransformContinuousIndexToPhysicalPoint([float(c) for c in e])) - np.array(img.GetOrigin()) for e in E])
            ctx.close("unit_steps_vs_itk", steps, itk_steps, K * eps * (np.abs(np.asarray(origin)) + np.abs(ref.A).sum(axis=1) * 2) + 1e-12, **info)
            ctx.close("unit_steps_are_direction_columns", itk_steps, (direction * np.asarray(spacing)).T, 1e-9 * (1 + np.abs(np.asarray(spacing)).max()), **info)

    # --- attributes changed after the grid was used (history): the maps follow the attributes the grid reports, and ITK
    #     agrees for an image with those attributes; attribute tensors handed in by the caller stay the caller's
    with ctx.guard("Grid attribute history", key="exc/attribute_history", params=p):
        ctx.bucket("attribute_history")
        g0 = grids.get("origin")
        if g0 is not None:
            g0.index_to_world(torch.tensor(idx, dtype=torch.float64))  # the map was evaluated before the change
            R2, _k = gen.rand_direction(rng, D)
            R2 = gen.f32(R2)
            s2 = gen.f32(np.asarray(spacing) * rng.uniform(0.5, 2.0, size=D))
            for how in ("copy", "in_place"):
                g = g0.clone()
                g.index_to_world(torch.tensor(idx, dtype=torch.float64))
                g.origin()
                if how == "copy":
                    g = g.spacing(torch.tensor(s2, dtype=torch.float32))
                    g.origin()
                    g = g.direction(torch.tensor(R2, dtype=torch.float32))  # the direction is the last thing to change
                else:
                    g.spacing_(torch.tensor(s2, dtype=torch.float32))
                    g.index_to_world(torch.tensor(idx, dtype=torch.float64))
                    g.direction_(torch.tensor(R2, dtype=torch.float32))
                img2 = sitk.Image([int(n_) for n_ in size], sitk.sitkFloat32)
                img2.SetSpacing([float(x) for x in s2])
                img2.SetDirection([float(x) for x in R2.flatten()])
                img2.SetOrigin([float(x) for x in g.origin().double().numpy()])  # ITK keeps the origin the grid reports ...
                phys2 = np.array([img2.TransformContinuousIndexToPhysicalPoint([float(c) for c in row]) for row in idx])
                ref2 = RefGrid(size, s2, R2, origin=g.origin().double().numpy())
                wtol2 = ref2.tol(np.abs(idx), GRID, WORLD, eps=eps, k=K) + 1e-9
                ctx.close("index_to_world_after_attribute_change_vs_itk", g.index_to_world(torch.tensor(idx, dtype=torch.float64)), phys2, wtol2, key=f"attribute_history/{how}", how=how)
                # ... and the centre did not move when direction and spacing changed (it is what the grid stores)
                ctx.close("center_kept_by_direction_and_spacing_change", g.center(), g0.center().double().numpy(), wtol2.max(axis=0), key=f"attribute_history/{how}", how=how)
                mid = np.array(img2.TransformContinuousIndexToPhysicalPoint([float((k_ - 1) / 2) for k_ in size]))
                ctx.close("center_is_itk_mid_index_after_attribute_change", g.center(), mid, wtol2.max(axis=0) * 2, key=f"attribute_history/{how}", how=how)
            # caller-owned float32 tensors given as attributes are not modified, and can be used again
            o_t = torch.tensor(origin, dtype=torch.float32)
            c_t = torch.tensor(itk_center, dtype=torch.float32)
            s_t = torch.tensor(spacing, dtype=torch.float32)
            d_t = torch.tensor(direction, dtype=torch.float32)
            keep = [t_.clone() for t_ in (o_t, c_t, s_t, d_t)]
            ga = Grid(size=tuple(size), origin=o_t, spacing=s_t, direction=d_t)
            gb = Grid(size=tuple(size), origin=o_t, spacing=s_t, direction=d_t)
            gc = Grid(size=tuple(size), center=c_t, spacing=s_t, direction=d_t)
            ctx.true("attribute_tensors_of_the_caller_unchanged", all(bool(torch.equal(a_, b_)) for a_, b_ in zip((o_t, c_t, s_t, d_t), keep)), key="attribute_history/caller_tensors")
            ctx.close("second_grid_from_same_tensors_vs_itk", gb.index_to_world(torch.tensor(idx, dtype=torch.float64)), phys, wtol, key="attribute_history/caller_tensors")
            ctx.close("first_grid_from_same_tensors_vs_itk", ga.index_to_world(torch.tensor(idx, dtype=torch.float64)), phys, wtol, key="attribute_history/caller_tensors")
            ctx.close("center_route_from_tensors_vs_itk", gc.index_to_world(torch.tensor(idx, dtype=torch.float64)), phys, wtol * 2, key="attribute_history/caller_tensors")
    # --- header conversion: sitk -> Grid
    with ctx.guard("Grid.from_sitk"):
        ctx.bucket("from_sitk")
        g = Grid.from_sitk(img, align_corners=p["align_corners"])
        header_checks(ctx, "from_sitk", g, size, origin, spacing, direction, wtol.max(axis=0))
        w = g.index_to_world(torch.tensor(idx, dtype=torch.float64))
        ctx.close("from_sitk_index_to_world_vs_itk", w, phys, wtol)
    # --- Image.sitk() and back
    with ctx.guard("Image.sitk"):
        ctx.bucket("image_sitk")
        g = grids.get("origin")
        if g is not None:
            C = int(rng.choice([1, 1, 2, 3]))
            data = torch.tensor(rng.normal(size=(C,) + tuple(size[::-1])), dtype=torch.float32)
            im = Image(data, g)
            s = im.sitk()
            ctx.true("sitk_size", list(s.GetSize()) == [int(k) for k in size], got=list(s.GetSize()), want=size)
            ctx.close("sitk_origin", np.array(s.GetOrigin()), np.asarray(origin), wtol.max(axis=0))
            ctx.close("sitk_spacing", np.array(s.GetSpacing()), np.asarray(spacing), 4 * eps * np.asarray(spacing))
            ctx.close("sitk_direction", np.array(s.GetDirection()).reshape(D, D), direction, 4 * eps)
            ctx.true("sitk_components", s.GetNumberOfComponentsPerPixel() == C, got=s.GetNumberOfComponentsPerPixel(), want=C)
            # voxel at index (x, y[, z]) of channel c is data[c, [z,] y, x]
            probe = [int(rng.integers(0, k)) for k in size]
            px = s.GetPixel(*probe)
            px = np.atleast_1d(np.asarray(px, dtype=np.float64))
            want = data[(slice(None),) + tuple(probe[::-1])].double().numpy()
            ctx.close("sitk_pixel_layout", px, want, 0.0, probe=probe)
            # physical position of that voxel according to ITK == grid.index_to_world
            pw = np.array(s.TransformIndexToPhysicalPoint(probe))
            ctx.close("sitk_voxel_position", g.index_to_world(torch.tensor(probe, dtype=torch.float64)), pw, wtol.max(axis=0) * 2)
            im2 = Image.from_sitk(s, align_corners=p["align_corners"])
            ctx.true("from_sitk_data_identical", im2.shape == im.shape and bool((im2.tensor() == im.tensor()).all()), shape=[list(im2.shape), list(im.shape)])
            header_checks(ctx, "roundtrip", im2.grid(), size, origin, spacing, direction, wtol.max(axis=0) * 2)
            ctx.true("roundtrip_grid_eq", im2.grid() == g or not grid_close_expected(g), got=repr(im2.grid()), want=repr(g))
    # --- numpy grid attributes of a SimpleITK image (utils.simpleitk.grid): same maps, float64
    with ctx.guard("image_grid_attributes", key="exc/GridAttrs", params=p):
        from deepali.utils.simpleitk.grid import GridAttrs, image_grid_attributes

        ctx.bucket("grid_attrs")
        ga = image_grid_attributes(img)
        ctx.true("attrs_header", list(ga.size) == [int(k) for k in size] and np.allclose(ga.origin, img.GetOrigin(), rtol=0, atol=0) and np.allclose(ga.spacing, img.GetSpacing(), rtol=0, atol=0) and np.allclose(ga.direction, img.GetDirection(), rtol=0, atol=0), key="GridAttrs/header", got=repr(ga))
        idx64 = idx.astype(np.float64)
        itk_p = np.array([img.TransformContinuousIndexToPhysicalPoint([float(v) for v in row]) for row in idx64])
        scale = 1 + float(np.abs(itk_p).max())
        ctx.close("attrs_index_to_physical_vs_itk", ga.index_to_physical_space(idx64), itk_p, 1e-10 * scale, key="GridAttrs/index_to_physical")
        itk_back = np.array([img.TransformPhysicalPointToContinuousIndex([float(v) for v in row]) for row in itk_p])
        iscale = 1 + float(np.abs(itk_back).max()) + scale / float(np.min(spacing))
        # the generated direction cosines are orthonormal to float32 precision only; ITK inverts the matrix, the
        # attributes use its transpose: the difference enters every world -> index map
        orth = float(np.abs(direction.astype(np.float64) @ direction.astype(np.float64).T - np.eye(D)).max())
        itol = (1e-9 + 8 * orth) * iscale
        back = ga.physical_space_to_continuous_index(itk_p)
        ctx.close("attrs_physical_to_continuous_index_vs_itk", back, itk_back, itol, key="GridAttrs/physical_to_index")
        far = np.abs(itk_back - np.floor(itk_back) - 0.5) > 1e-6 + 2 * itol  # away from rounding ties
        rows = far.all(axis=1)
        if rows.any():
            ctx.true("attrs_physical_to_index_is_nearest_sample", bool((ga.physical_space_to_index(itk_p)[rows] == np.round(itk_back[rows]).astype(int)).all()), key="GridAttrs/physical_to_index")
        ctx.close("attrs_transform_times_inverse_is_identity", ga.transform @ ga.inverse_transform, np.eye(D + 1), itol, key="GridAttrs/matrices")
        pts = ga.points
        corner = tuple(int(k) - 1 for k in size)
        ctx.true("attrs_points_shape", tuple(pts.shape) == tuple(int(k) for k in size[::-1]) + (D,), key="GridAttrs/points", got=list(pts.shape))
        ctx.close("attrs_last_point_vs_itk", pts[tuple(corner[::-1])], np.array(img.TransformIndexToPhysicalPoint([int(c) for c in corner])), 1e-10 * scale, key="GridAttrs/points")
        # the attributes in use: a world-linear ramp image interpolated at physical points inside the image is the ramp
        # (numpy resampling helpers of utils.simpleitk.sample, which map world -> index through these attributes)
        if min(size) >= 2:
            from deepali.utils.simpleitk.sample import interpolate_ndimage, interpolate_regular_grid

            coef = rng.normal(size=D)
            allidx = np.stack(np.meshgrid(*[np.arange(int(k)) for k in size[::-1]], indexing="ij"), axis=-1)[..., ::-1].astype(np.float64)
            allphys = allidx @ ref.A.T + ref.o
            ramp_img = sitk.GetImageFromArray((allphys @ coef).astype(np.float64))
            ramp_img.CopyInformation(img)
            q_idx = rng.uniform(0.05, 0.95, size=(9, D)) * (n - 1)
            q_phys = np.array([img.TransformContinuousIndexToPhysicalPoint([float(v) for v in row]) for row in q_idx])
            want = q_phys @ coef
            rtol = 1e-9 * (1 + float(np.abs(allphys @ coef).max())) + (1e-9 + 8 * orth) * iscale * float(np.abs(coef * np.asarray(spacing)).sum())
            ctx.close("attrs_interpolate_ndimage_of_ramp", interpolate_ndimage(ramp_img, q_phys), want, rtol, key="GridAttrs/interpolate")
            ctx.close("attrs_interpolate_regular_grid_of_ramp", interpolate_regular_grid(ramp_img, q_phys), want, rtol, key="GridAttrs/interpolate")
            ctx.bucket("grid_attrs/interpolate")
        # both construction routes describe the same grid: center -> origin -> center
        c0 = np.array(ga.center)
        via_center = GridAttrs(size=ga.size, center=tuple(c0), spacing=ga.spacing, direction=ga.direction)
        ctx.close("attrs_center_route_reproduces_origin", np.array(via_center.origin), np.array(ga.origin), 1e-10 * scale, key="GridAttrs/center_route")
        ctx.close("attrs_center_route_reproduces_center", np.array(via_center.center), c0, 1e-10 * scale, key="GridAttrs/center_route")
    # --- Grid.from_file / from_reader
    if i % 4 == 0 and min(size) >= 1:
        with ctx.guard("Grid.from_file"):
            ctx.bucket("from_file")
            ext = [".mha", ".nii.gz", ".nrrd", ".mhd"][(i // 4) % 4]
            with tempfile.TemporaryDirectory(prefix="vmon-c02-") as tmp:
                path = os.path.join(tmp, "img" + ext)
                sitk.WriteImage(img, path)
                rd = sitk.ImageFileReader()
                rd.SetFileName(path)
                rd.ReadImageInformation()
                # reference = the header as ITK reads it back (formats store float32/quaternions)
                fsize, forigin, fspacing = list(rd.GetSize()), np.array(rd.GetOrigin()), np.array(rd.GetSpacing())
                fdir = np.array(rd.GetDirection()).reshape(D, D)
                g = Grid.from_file(path, align_corners=p["align_corners"])
                header_checks(ctx, "from_file" + ext, g, fsize, forigin, fspacing, fdir, wtol.max(axis=0) * 2)
                g2 = Grid.from_reader(rd)
                header_checks(ctx, "from_reader" + ext, g2, fsize, forigin, fspacing, fdir, wtol.max(axis=0) * 2)
                # the same geometry through the data class: Image.read of the ITK file places every index where ITK does,
                # and ITK places every index of an Image.write file where the grid does
                back_img = sitk.ReadImage(path)
                fphys = np.array([back_img.TransformContinuousIndexToPhysicalPoint([float(c) for c in row]) for row in idx])
                im = Image.read(path, align_corners=p["align_corners"])
                ctx.close("image_read_index_to_world_vs_itk", im.grid().index_to_world(torch.tensor(idx, dtype=torch.float64)), fphys, 2 * wtol + 1e-9, key=f"file_route/read/{ext}", ext=ext)
                header_checks(ctx, "Image.read" + ext, im.grid(), fsize, forigin, fspacing, fdir, wtol.max(axis=0) * 2)
                gsrc = grids.get("origin")
                if gsrc is not None:
                    path2 = os.path.join(tmp, "own" + ext)
                    Image(torch.zeros((1,) + tuple(size[::-1]), dtype=torch.float32), gsrc).write(path2)
                    own = sitk.ReadImage(path2)
                    ophys = np.array([own.TransformContinuousIndexToPhysicalPoint([float(c) for c in row]) for row in idx])
                    # formats store float32 values or quaternions: 2e-5 relative on each header field
                    ftol = wtol + 2e-5 * (np.abs(np.asarray(origin)) + (np.abs(idx) + 1) @ np.abs(ref.A).T) + 1e-9
                    ctx.close("image_write_index_to_world_by_itk", ophys, gsrc.index_to_world(torch.tensor(idx, dtype=torch.float64)).numpy(), ftol, key=f"file_route/write/{ext}", ext=ext)
                    ctx.close("image_write_direction_by_itk", np.array(own.GetDirection()).reshape(D, D), direction, 2e-5, key=f"file_route/write/{ext}", ext=ext)
                    ctx.bucket(f"file_route/{ext}")
                # and the file header itself stayed what was written (guards the oracle)
                ctx.close("file_header_origin_preserved", forigin, np.asarray(origin), 1e-4 * (1 + np.abs(origin)))


def grid_close_expected(g) -> bool:
    # Grid.__eq__ uses rtol=1e-5 / atol=1e-8 on float32 attributes; with |center| >> extent rounding of
    # origin -> center -> origin may exceed atol for components near 0: only assert when well conditioned.
    c = g.center().abs()
    return bool((c.min() > 1e-3 * (1 + c.max())) or c.max() == 0)


def header_checks(ctx, tag, g, size, origin, spacing, direction, wtol):
    D = len(size)
    ctx.true(f"header_size", list(g.size()) == [int(k) for k in size], tag=tag, got=list(g.size()), want=list(size))
    ctx.close("header_origin", g.origin(), np.asarray(origin), wtol, tag=tag)
    ctx.close("header_spacing", g.spacing(), np.asarray(spacing), 4 * 1.2e-7 * np.asarray(spacing), tag=tag)
    ctx.close("header_direction", g.direction(), np.asarray(direction).reshape(D, D), 4 * 1.2e-7, tag=tag)
