r"""C19 — batches keep one correctly aligned grid per image under tensor operations."""

from __future__ import annotations

import copy as pycopy
import io
import pickle

import numpy as np

PROPERTY = "C19"
RULE = (
    "Provenance model: a batch of 3 items (C=2, or C=D for flow fields) whose item i has a grid with origin "
    "encoding i; every operation of a catalogue of about 90 torch operations (elementwise, reductions over each "
    "dim, every indexing form incl. bool masks / index tensors / lists / ellipsis, narrow/select/index_select/"
    "gather/take_along_dim, cat/stack/split (int and list)/chunk/unbind/tensor_split (int and indices), flip/roll/"
    "permute/transpose/flipud, expand/repeat, reshape/view/flatten, interpolate/pool/pad, casts, clone/detach/"
    "contiguous, copy/deepcopy/pickle, iteration) is applied to ImageBatch, FlowFields (each vector representation), "
    "Image and FlowField, and replayed on a plain carrier tensor filled with item ids so that the source item(s) of "
    "every result entry are read off the carrier. Every single operation is enumerated (bucket per op and subject "
    "type); programs of length 2-3 are sampled. A typed result must carry one grid per entry with the data's "
    "spatial shape, entry j must carry the grid (and axes) of the item whose data it holds, mixed entries must "
    "not be typed; copy/deepcopy/pickle must preserve type, data, grids and axes. Non-trivial: every (operation, "
    "subject) pair and every sampled program; distinct = hash of the operation names."
)
ASSUMPTIONS = [
    "returning a plain tensor is always acceptable (the property only constrains results that are images again)",
    "operations that permute data within an item's spatial dimensions (flip/roll along spatial axes) are outside the statement",
]
ANCHORS = [
    ("deepali.data.image", "ImageBatch.__torch_function__"),
    ("deepali.data.image", "ImageBatch._torch_function_grid"),
    ("deepali.data.image", "ImageBatch._torch_function_result"),
    ("deepali.data.image", "ImageBatch.__getitem__"),
    ("deepali.data.image", "ImageBatch.__iter__"),
    ("deepali.data.image", "Image.__torch_function__"),
    ("deepali.data.flow", "FlowFields.__torch_function__"),
    ("deepali.data.flow", "FlowFields._torch_function_result"),
    ("deepali.data.flow", "FlowFields._torch_function_axes"),
    ("deepali.data.flow", "FlowField.__torch_function__"),
    ("deepali.data.tensor", "DataTensor.__copy__"),
    ("deepali.data.tensor", "DataTensor.__reduce_ex__"),
]
BUDGET = {"quick": 400, "thorough": 3600}
SUBJECTS = ["ImageBatch", "FlowFields/cube", "FlowFields/cube_corners", "FlowFields/grid", "FlowFields/world", "Image", "FlowField"]
N_PROGRAMS = {"quick": 400, "thorough": 160000}


def _as_flow_fields(x):
    r"""Conversion constructors between the batch classes (typed inputs); identity program for the plain carrier."""
    from deepali.data.flow import FlowFields
    from deepali.data.image import ImageBatch

    # (an image batch whose channels are vector components; flow fields themselves are left alone: constructing from
    # them without axes falls back to the documented default axes)
    # (needs one channel per spatial dimension, and at least one entry: the default axes are taken from the first grid)
    return FlowFields(x) if (type(x) is ImageBatch and x.ndim >= 4 and x.shape[0] > 0 and x.shape[1] == x.ndim - 2) else x


def ops():
    r"""Catalogue: name -> callable(x, torch, F). Applied to the subject and to the carrier alike."""
    import torch
    import torch.nn.functional as F

    idx = lambda x, *i: torch.tensor(list(i), device=x.device)  # noqa: E731
    O = {
        # elementwise
        "add_scalar": lambda x: x + 1, "mul_self": lambda x: x * x, "neg": lambda x: -x, "sin": lambda x: torch.sin(x), "abs": lambda x: x.abs(),
        "clamp": lambda x: x.clamp(0, 1), "where": lambda x: torch.where(x > 0, x, x), "sub_tensor": lambda x: x - torch.ones(()), "pow": lambda x: x.pow(2), "sqrt_abs": lambda x: x.abs().sqrt(),
        # reductions
        "sum_all": lambda x: x.sum(), "sum_dim0": lambda x: x.sum(0), "sum_dim0_keep": lambda x: x.sum(0, keepdim=True), "mean_dim1": lambda x: x.mean(1), "mean_dim1_keep": lambda x: x.mean(1, keepdim=True),
        "max_dim0": lambda x: x.max(0).values, "amax_last": lambda x: x.amax(-1), "sum_last_keep": lambda x: x.sum(-1, keepdim=True), "cumsum_dim0": lambda x: x.cumsum(0),
        # indexing
        "getitem_int": lambda x: x[1], "getitem_neg": lambda x: x[-1], "getitem_slice": lambda x: x[0:2], "getitem_slice_from": lambda x: x[1:], "getitem_step": lambda x: x[::2], "getitem_rev_list": lambda x: x[[2, 0]],
        "getitem_index_tensor": lambda x: x[idx(x, 2, 0)], "getitem_bool": lambda x: x[torch.tensor([True, False, True][: x.shape[0]])], "getitem_ellipsis": lambda x: x[...], "getitem_tuple_slices": lambda x: x[1:3, :, ...],
        "getitem_channel_slice": lambda x: x[:, 0:1], "getitem_channel_int": lambda x: x[:, 0], "getitem_item_channel": lambda x: x[1, 0], "getitem_spatial_crop": lambda x: x[..., 1:3], "getitem_full_slices": lambda x: x[:, :, ...],
        "getitem_numpy": lambda x: x[np.array([1, 2][: max(1, x.shape[0] - 1)])],
        "getitem_bool_list": lambda x: x[[True, False, True][: x.shape[0]]], "getitem_bool_numpy": lambda x: x[np.array([False, True, True][: x.shape[0]])], "getitem_bool_tuple": lambda x: x[torch.tensor([False, True, True][: x.shape[0]]), ...],
        "getitem_neg_list": lambda x: x[[-1, 0]], "getitem_single_list": lambda x: x[[1]], "getitem_int_tuple": lambda x: x[(1,)],
        # selection along batch dim
        "narrow_neg_batch_dim": lambda x: x.narrow(-x.ndim, 1, 2), "torch_narrow_neg_batch_dim": lambda x: torch.narrow(x, -x.ndim, 1, 1), "narrow_neg_channel_dim": lambda x: x.narrow(1 - x.ndim, 0, 1), "narrow_neg_spatial": lambda x: x.narrow(-2, 1, 2),
        "narrow0": lambda x: x.narrow(0, 1, 2), "narrow_last": lambda x: x.narrow(-1, 0, 2), "select0": lambda x: x.select(0, 1), "select1": lambda x: x.select(1, 0),
        "index_select0": lambda x: x.index_select(0, idx(x, 2, 0)), "index_select0_all": lambda x: x.index_select(0, idx(x, 2, 0, 1)), "index_select1": lambda x: x.index_select(1, idx(x, 0)),
        "torch_index_select0": lambda x: torch.index_select(x, 0, idx(x, 1, 2)),
        "gather0": lambda x: x.gather(0, torch.tensor([2, 0, 1][: x.shape[0]]).reshape((-1,) + (1,) * (x.ndim - 1)).expand(x.shape)),
        "take_along_dim0": lambda x: torch.take_along_dim(x, torch.tensor([1, 2, 0][: x.shape[0]]).reshape((-1,) + (1,) * (x.ndim - 1)).expand(x.shape), 0),
        # joining / splitting
        "cat0": lambda x: torch.cat([x, x]), "cat0_rev": lambda x: torch.cat([x[1:], x[:1]]), "cat1": lambda x: torch.cat([x, x], dim=1), "cat_last": lambda x: torch.cat([x, x], dim=-1), "stack0": lambda x: torch.stack([x, x]),
        "split1": lambda x: x.split(1), "split2": lambda x: x.split(2), "split_list": lambda x: x.split([1, 2]), "split_dim1": lambda x: x.split(1, dim=1), "torch_split": lambda x: torch.split(x, [2, 1]),
        "chunk3": lambda x: x.chunk(3), "chunk2": lambda x: x.chunk(2), "chunk_dim1": lambda x: x.chunk(2, dim=1), "unbind0": lambda x: x.unbind(0), "unbind1": lambda x: x.unbind(1),
        "tensor_split3": lambda x: x.tensor_split(3), "tensor_split2": lambda x: x.tensor_split(2), "tensor_split_indices": lambda x: x.tensor_split([1]), "tensor_split_indices2": lambda x: x.tensor_split((1, 2)), "tensor_split_tensor_indices": lambda x: x.tensor_split(torch.tensor([1, 2])), "torch_tensor_split_tensor": lambda x: torch.tensor_split(x, torch.tensor([1])),
        "tensor_split_sections_kw": lambda x: torch.tensor_split(x, sections=3), "tensor_split_dim_positional": lambda x: x.tensor_split(2, 1), "torch_tensor_split_indices_kw": lambda x: torch.tensor_split(x, indices=[1, 2]),
        "cat_dim_positional": lambda x: torch.cat([x, x], 1), "cat_tensors_kw": lambda x: torch.cat(tensors=[x, x], dim=0), "split_dim_positional": lambda x: torch.split(x, 1, 1), "split_size_kw": lambda x: x.split(split_size=2),
        "split_neg_batch_dim": lambda x: x.split(1, dim=-x.ndim), "cat_neg_batch_dim": lambda x: torch.cat([x, x], dim=-x.ndim), "tensor_split_neg_batch_dim": lambda x: x.tensor_split(2, dim=-x.ndim),
        "unbind_neg_batch_dim": lambda x: x.unbind(-x.ndim), "chunk_neg_batch_dim": lambda x: x.chunk(2, dim=-x.ndim), "index_select_neg_batch_dim": lambda x: x.index_select(-x.ndim, idx(x, 1, 2)), "select_neg_batch_dim": lambda x: x.select(-x.ndim, 1),
        "split_with_sizes_3": lambda x: x.split_with_sizes([1, 1, 1][: x.shape[0]]), "torch_split_with_sizes_3": lambda x: torch.split_with_sizes(x, [1, 1, 1][: x.shape[0]]), "split_with_sizes_dim1": lambda x: x.split_with_sizes([1, x.shape[1] - 1], dim=1),
        "collate_sub_batches": lambda x: collate(x, [slice(0, 2), slice(2, None)]), "collate_three": lambda x: collate(x, [slice(0, 1), slice(1, 2), slice(2, None)]), "collate_items": lambda x: collate(x, [0, 1, 2]),
        "rebatch_from_iteration": lambda x: type(x).from_images(list(x)) if hasattr(type(x), "from_images") and len(x) else x, "append_self": lambda x: x.append(x) if hasattr(x, "append") else torch.cat([x, x]),
        "chunk_dim_positional": lambda x: x.chunk(2, 1), "unbind_dim_positional": lambda x: x.unbind(1), "as_flow_fields": lambda x: _as_flow_fields(x), "narrow_kw": lambda x: x.narrow(dim=0, start=1, length=2), "narrow_neg_start": lambda x: x.narrow(0, -2, 2), "torch_narrow_neg_start": lambda x: torch.narrow(x, 0, -2, 1), "select_kw": lambda x: x.select(dim=0, index=1), "tensor_split_dim_kw": lambda x: x.tensor_split(2, dim=0),
        "iterate": lambda x: list(x),
        # reordering
        "flip0": lambda x: x.flip(0), "flip_dims": lambda x: x.flip((0, 1)), "flipud": lambda x: x.flipud(), "torch_flip0": lambda x: torch.flip(x, [0]), "roll0": lambda x: x.roll(1, 0), "roll_flat": lambda x: x.roll(1),
        "roll_last": lambda x: x.roll(1, -1), "permute_01": lambda x: x.permute(1, 0, *range(2, x.ndim)), "transpose01": lambda x: x.transpose(0, 1), "transpose_last": lambda x: x.transpose(-1, -2), "movedim": lambda x: x.movedim(0, 1),
        # shape
        "repeat_batch": lambda x: x.repeat(2, *([1] * (x.ndim - 1))), "repeat_interleave0": lambda x: x.repeat_interleave(2, dim=0), "expand_item": lambda x: x[:1].expand(3, *x.shape[1:]), "reshape_same": lambda x: x.reshape(x.shape),
        "reshape_merge": lambda x: x.reshape(-1, *x.shape[2:]), "view_same": lambda x: x.view(x.shape), "flatten2": lambda x: x.flatten(2), "flatten_all": lambda x: x.flatten(), "unsqueeze0": lambda x: x.unsqueeze(0),
        "squeeze": lambda x: x[:1].squeeze(0),
        # resampling
        "interpolate": lambda x: F.interpolate(x, scale_factor=2), "avg_pool": lambda x: (F.avg_pool2d if x.ndim == 4 else F.avg_pool3d)(x, 2), "pad": lambda x: F.pad(x, (1, 1)), "max_pool_same": lambda x: (F.max_pool2d if x.ndim == 4 else F.max_pool3d)(x, 3, stride=1, padding=1),
        # casts / copies
        "float": lambda x: x.float(), "double": lambda x: x.double(), "to_dtype": lambda x: x.to(torch.float64), "long": lambda x: x.long(), "clone": lambda x: x.clone(), "detach": lambda x: x.detach(), "contiguous": lambda x: x.contiguous(),
        "cpu": lambda x: x.cpu(), "type_as": lambda x: x.type_as(torch.zeros((), dtype=torch.float64)),
    }
    return O


SPECIAL = ["copy", "deepcopy", "pickle"]
EXTRA = ["uneven_tensor_split", "out_argument", "grid_history"]  # probes that build their own subjects
# operations that change values but move no data between positions: the carrier is left as it is
ELEMENTWISE = {"add_scalar", "mul_self", "neg", "sin", "abs", "clamp", "where", "sub_tensor", "pow", "sqrt_abs", "float", "double", "to_dtype", "long", "type_as"}


# reductions within an item keep its provenance (max of equal ids), reductions across items mix them (sum of ids)
CARRIER_OVERRIDE = {
    "mean_dim1": lambda c: c.amax(1), "mean_dim1_keep": lambda c: c.amax(1, keepdim=True), "sum_last_keep": lambda c: c.amax(-1, keepdim=True),
    "max_dim0": lambda c: c.sum(0), "sum_all": lambda c: c.amax() * 0 + 7.0,
    "rebatch_from_iteration": lambda c: c, "append_self": lambda c: __import__("torch").cat([c, c]),
    "collate_sub_batches": lambda c: c, "collate_three": lambda c: c, "collate_items": lambda c: c,
}
# operations that reorder, repeat or mix entries along the batch dimension without changing what the generic
# __torch_function__ looks at (one mechanism: grids are re-attached whenever the shapes happen to match)
REORDER = {"flip0", "flip_dims", "flipud", "torch_flip0", "roll0", "roll_flat", "index_select0_all", "gather0", "take_along_dim0", "movedim", "permute_01", "transpose01", "cumsum_dim0", "cat0_rev"}


def collate(x, parts):
    r"""Re-assemble a batch from samples (sub-batches or single items) with deepali.data.collate.collate_samples."""
    from deepali.data.collate import collate_samples

    if not hasattr(x, "grids") or x.shape[0] < 3:
        return x
    return collate_samples([{"im": x[p]} for p in parts])["im"]


def replay(name, fn, car):
    if name in ELEMENTWISE:
        return car
    if name in CARRIER_OVERRIDE:
        return CARRIER_OVERRIDE[name](car)
    return fn(car)


def vkey(name, what):
    return f"batch_reorder/{what}" if name in REORDER else f"{name}/{what}"

def sources(t):
    r"""Item ids whose data a carrier slice holds: the carrier of item i is filled with 2**i, so sums of distinct
    items decode as bit masks and any other mixture is not a power of two."""
    import torch

    vals = torch.unique(t.double()).tolist()
    out = set()
    for v in vals:
        if v > 0 and abs(v - round(v)) < 1e-9 and (int(round(v)) & (int(round(v)) - 1)) == 0:
            out.add(int(round(np.log2(round(v)))))
        else:
            return None  # mixture of items (or no item data at all)
    return sorted(out)


def plan(tier, seed):
    names = sorted(ops())
    items = [["op", s, n] for s in SUBJECTS for n in names + SPECIAL]
    items += [["extra", s, n] for s in SUBJECTS for n in EXTRA]
    items += [["program", k] for k in range(N_PROGRAMS[tier])]
    return items


def mandatory(tier):
    return [f"subject/{s.split('/')[0]}" for s in SUBJECTS] + ["programs", "special/copy", "special/deepcopy", "special/pickle", "special/grids/mixed_flags", "special/grids/shared", "special/grids/fractional", "typed_results", "plain_results", "extra/uneven_tensor_split", "extra/out_argument", "extra/grid_history"]


def make_subject(kind, D=2, variant="distinct", N=3):
    import torch
    from deepali.core.grid import Axes, Grid
    from deepali.data.flow import FlowField, FlowFields
    from deepali.data.image import Image, ImageBatch

    shape = (4, 5) if D == 2 else (3, 4, 5)
    C = D if kind.startswith("Flow") else 2
    grids = [Grid(shape=shape, origin=tuple([10.0 * (i + 1)] + [0.0] * (D - 1)), spacing=tuple([1.0 + 0.5 * i] * D)) for i in range(N)]
    if variant == "mixed_flags":  # equal geometry (Grid.__eq__ is true), only the align_corners flag tells items apart
        grids = [Grid(shape=shape, origin=tuple([10.0] + [0.0] * (D - 1)), spacing=tuple([1.5] * D), align_corners=bool(i % 2)) for i in range(N)]
    elif variant == "shared":
        grids = [grids[0]] * N
    elif variant == "fractional":  # pyramid-level grids keep a fractional internal size (2.5, reported 3): part of the grid's state
        big = tuple(2 * n - 1 for n in shape)
        grids = [Grid(shape=big, origin=tuple([10.0 * (i + 1)] + [0.0] * (D - 1)), spacing=tuple([1.0 + 0.5 * i] * D)).downsample(1) for i in range(N)]
        assert all(tuple(g.shape) == tuple(shape) for g in grids)
    data = torch.stack([torch.full((C,) + shape, float(i)) + 0.01 * torch.arange(C).reshape((C,) + (1,) * D) for i in range(N)])
    carrier = torch.stack([torch.full((C,) + shape, float(2**i)) for i in range(N)])
    if kind == "ImageBatch":
        return ImageBatch(data, grids), carrier, grids, None
    if kind.startswith("FlowFields"):
        ax = Axes(kind.split("/")[1])
        return FlowFields(data, grids, axes=ax), carrier, grids, ax
    if kind == "Image":
        return Image(data[1], grids[1]), carrier[1], grids, None
    ax = Axes.GRID
    return FlowField(data[1], grids[1], ax), carrier[1], grids, ax


def item_of(grid, grids):
    r"""Which source item does this grid belong to (origin encodes the item)?"""
    for i, g in enumerate(grids):
        if grid is g or (grid == g and float((grid.origin() - g.origin()).abs().max()) < 1e-6):
            return i
    # derived grids (index operations keep spacing and direction): the spacing 1 + i / 2 encodes the item as well
    for i, g in enumerate(grids):
        if float((grid.spacing() - g.spacing()).abs().max()) < 1e-6:
            return i
    return -1


def judge(ctx, name, kind, res, car, grids, axes, batched):
    r"""Verdict on one result (or element of a tuple result) given the carrier replay."""
    import torch
    from deepali.data.flow import FlowField, FlowFields
    from deepali.data.image import Image, ImageBatch

    info = dict(op=name, subject=kind)
    cond = f"{name}"
    if isinstance(res, (ImageBatch,)):
        ctx.bucket("typed_results")
        gl = res.grids()
        ok = ctx.true("one_grid_per_batch_entry", len(gl) == res.shape[0], key=f"{cond}/grid_count", n_grids=len(gl), batch=int(res.shape[0]), **info)
        ctx.true("grid_shape_equals_spatial_shape", all(tuple(g.shape) == tuple(res.shape[2:]) for g in gl), key=f"{cond}/grid_shape", **info)
        if ok and isinstance(car, torch.Tensor) and car.shape[0] == res.shape[0]:
            for j in range(res.shape[0]):
                ids = sources(car[j])
                if car[j].numel() == 0:
                    continue
                if ids is None or len(ids) != 1:
                    ctx.true("mixed_items_must_not_be_an_image", False, key=vkey(name, "mixed_typed"), entry=j, ids=ids, **info)
                    continue
                got = item_of(gl[j], grids)
                ctx.true("entry_carries_grid_of_its_source_item", got == int(ids[0]), key=vkey(name, "wrong_grid"), entry=j, data_from_item=int(ids[0]), grid_of_item=got, **info)
        if isinstance(res, FlowFields):
            ctx.true("axes_preserved", axes is None or res.axes() is axes, key=f"{cond}/axes", got=str(res.axes()), want=str(axes), **info)
        elif axes is not None and res.shape[1] == res.ndim - 2:
            ctx.count("flowfields_downgraded_to_imagebatch")
        return
    if isinstance(res, Image):
        ctx.bucket("typed_results")
        ctx.true("grid_shape_equals_spatial_shape", tuple(res.grid().shape) == tuple(res.shape[1:]), key=f"{cond}/grid_shape", **info)
        if isinstance(car, torch.Tensor) and car.numel() > 0:
            if not batched:
                ids = [1]  # a single image cannot be mixed with another item: it is item 1 of the grids list
            else:
                ids = sources(car)
            if ids is None or len(ids) != 1:
                ctx.true("mixed_items_must_not_be_an_image", False, key=vkey(name, "mixed_typed"), ids=ids, **info)
            else:
                got = item_of(res.grid(), grids)
                ctx.true("image_carries_grid_of_its_source_item", got == int(ids[0]), key=vkey(name, "wrong_grid"), data_from_item=int(ids[0]), grid_of_item=got, **info)
        if isinstance(res, FlowField):
            ctx.true("axes_preserved", axes is None or res.axes() is axes, key=f"{cond}/axes", got=str(res.axes()), want=str(axes), **info)
        return
    if isinstance(res, torch.Tensor):
        ctx.bucket("plain_results")
        ctx.true("plain_result_is_exactly_a_tensor", type(res) is torch.Tensor, key=f"{cond}/subclass_leak", got=type(res).__name__, **info)
        return
    if isinstance(res, (tuple, list)):
        if isinstance(car, (tuple, list)) and len(car) == len(res):
            for r_, c_ in zip(res, car):
                judge(ctx, name, kind, r_, c_, grids, axes, batched)
        else:
            ctx.true("sequence_result_length", False, key=f"{cond}/length", got=len(res), want=len(car) if isinstance(car, (tuple, list)) else None, **info)
        return
    ctx.count("non_tensor_results")


def run_item(ctx, item):
    if item[0] == "program":
        return program(ctx, item[1])
    if item[0] == "extra":
        return extra(ctx, item[1], item[2])
    _, kind, name = item
    return single(ctx, kind, name)


def extra(ctx, kind, name):
    r"""Probes with their own subjects: larger batches, results written into an existing object, grid changes in a history."""
    import torch

    batched = kind in ("ImageBatch",) or kind.startswith("FlowFields")
    info = dict(op=name, subject=kind)
    ctx.nontriv(kind, name)
    if name == "uneven_tensor_split" and batched:
        # torch's rule for an integer number of sections: the first N % n parts are one larger
        for N, sections in ((4, 3), (5, 4), (5, 3), (7, 3), (7, 4), (6, 4)):
            x, car, grids, axes = make_subject(kind, D=2, N=N)
            with ctx.guard("tensor_split(uneven)", key=f"exc/uneven_tensor_split/{kind.split('/')[0]}", N=N, sections=sections, **info):
                for form, fn in (("method", lambda t_: t_.tensor_split(sections)), ("function", lambda t_: torch.tensor_split(t_, sections)), ("keyword", lambda t_: torch.tensor_split(t_, sections=sections, dim=0))):
                    judge(ctx, f"tensor_split{sections}of{N}/{form}", kind, fn(x), fn(car), grids, axes, batched)
                ctx.bucket("extra/uneven_tensor_split")
    elif name == "out_argument" and batched:
        # a result written into an existing batch (out=) describes what it now holds
        x, car, grids, axes = make_subject(kind, D=2)
        y, _, ygrids, _ = make_subject(kind, D=2, variant="shared")
        with ctx.guard("out=", key=f"exc/out_argument/{kind.split('/')[0]}", **info):
            for oname, call in (("mul", lambda a, o: torch.mul(a, 2, out=o)), ("add", lambda a, o: torch.add(a, 1, out=o)), ("neg", lambda a, o: torch.neg(a, out=o)), ("clamp", lambda a, o: torch.clamp(a, min=-1e9, out=o))):
                out_obj = make_subject(kind, D=2, variant="shared")[0]
                res = call(x, out_obj)
                cres = call(car, torch.empty_like(car))
                if oname in ("mul", "add", "neg"):
                    cres = car  # provenance: entry i still comes from item i
                judge(ctx, f"out/{oname}", kind, res, cres, grids, axes, batched)
                ctx.true("out_argument_is_the_result", res is out_obj or not hasattr(res, "grids"), key="out/identity", op_name=oname, **info)
            ctx.bucket("extra/out_argument")
    elif name == "grid_history" and not batched:
        # single images / flow fields: a method that goes through the batch view, then the grid is replaced, then methods again
        from deepali.core.grid import Grid

        x, car, grids, axes = make_subject(kind, D=2)
        with ctx.guard("grid history", key=f"exc/grid_history/{kind}", **info):
            g_old = x.grid()
            g_new = Grid(shape=tuple(g_old.shape), origin=(-3.0, 7.0), spacing=(0.25, 2.0))
            first = x.narrow(1, 0, 2) if hasattr(x, "narrow") else x
            x.batch()
            x.grid_(g_new)
            checks = {"narrow": lambda t_: t_.narrow(1, 0, 2).grid() == g_new.narrow(1, 0, 2), "batch": lambda t_: t_.batch().grid() == g_new, "crop": lambda t_: t_.crop(num=0 if False else (0, 0, 1, 1)).grid() == g_new.crop(num=(0, 0, 1, 1)), "clone": lambda t_: t_.clone().grid() == g_new, "add": lambda t_: (t_ + 1).grid() == g_new, "resize": lambda t_: t_.resize(6, 5).grid() == g_new.resize(6, 5), "grid": lambda t_: t_.grid() == g_new}
            for cname, chk in checks.items():
                ok = False
                try:
                    ok = bool(chk(x))
                except Exception as e:  # noqa: BLE001
                    ctx.exceptions[f"grid_history/{cname}:{type(e).__name__}"] += 1
                    continue
                ctx.true("methods_after_grid_change_use_the_new_grid", ok, key=f"grid_history/{cname}", method=cname, **info)
            ctx.true("result_obtained_before_the_change_keeps_the_old_grid", first.grid() == g_old.narrow(1, 0, 2) if hasattr(first, "grid") else True, key="grid_history/earlier_result", **info)
            ctx.bucket("extra/grid_history")
    else:
        ctx.count("extra_not_applicable")


def single(ctx, kind, name):
    import torch

    x, car, grids, axes = make_subject(kind, D=2)
    batched = kind in ("ImageBatch",) or kind.startswith("FlowFields")
    ctx.bucket(f"subject/{kind.split('/')[0]}")
    ctx.nontriv(kind, name)
    info = dict(op=name, subject=kind)
    if name in SPECIAL:
      for variant in (("distinct", "mixed_flags", "shared", "fractional") if batched else ("distinct",)):
        if variant != "distinct":
            x, car, grids, axes = make_subject(kind, D=2, variant=variant)
            info = dict(op=name, subject=kind, grids=variant)
        ctx.bucket(f"special/{name}")
        ctx.bucket(f"special/grids/{variant}")
        with ctx.guard(f"{name}", key=f"exc/{name}/{kind.split('/')[0]}", **info):
            if name == "copy":
                y = pycopy.copy(x)
            elif name == "deepcopy":
                y = pycopy.deepcopy(x)
            else:
                y = pickle.loads(pickle.dumps(x))
            ctx.true("copy_preserves_type", type(y) is type(x), key=f"{name}/type", got=type(y).__name__, **info)
            ctx.true("copy_preserves_data", tuple(y.shape) == tuple(x.shape) and bool((y.as_subclass(torch.Tensor) == x.as_subclass(torch.Tensor)).all()), key=f"{name}/data", **info)
            g0 = list(x.grids()) if batched else [x.grid()]
            g1 = (list(y.grids()) if batched else [y.grid()]) if hasattr(y, "grid") else []
            same = len(g0) == len(g1) and all(a == b and float((a.origin() - b.origin()).abs().max()) == 0 and a.align_corners() == b.align_corners() and bool((a._size == b._size).all()) for a, b in zip(g0, g1))
            ctx.true("copy_preserves_grids", same, key=f"{name}/grids", n=len(g1), **info)
            if axes is not None:
                ctx.true("copy_preserves_axes", getattr(y, "axes", lambda: None)() is axes, key=f"{name}/axes", **info)
      return
    fn = ops()[name]
    try:
        cres = replay(name, fn, car)
    except Exception:  # noqa: BLE001  (operation not applicable to this subject's shape)
        ctx.count("op_not_applicable")
        return
    ctx.bucket(f"op/{name}")
    with ctx.guard(f"op", key=f"exc/{name}/{kind.split('/')[0]}", **info):
        res = fn(x)
        judge(ctx, name, kind, res, cres, grids, axes, batched)
    if name == "cat0" and kind == "ImageBatch":
        ctx.sample({"op": "cat0", "subject": kind, "carrier_ids_per_entry": [0, 1, 2, 0, 1, 2]})


def program(ctx, k):
    import torch

    rng = ctx.rng()
    kind = SUBJECTS[int(rng.integers(0, 5))]  # batch subjects
    x, car, grids, axes = make_subject(kind, D=int(rng.choice([2, 3])))
    names = sorted(ops())
    length = int(rng.integers(2, 4))
    prog = []
    cur, ccur = x, car
    ctx.bucket("programs")
    for _ in range(length):
        name = str(rng.choice(names))
        fn = ops()[name]
        from deepali.data.image import ImageBatch

        if not isinstance(ccur, torch.Tensor) or not isinstance(cur, ImageBatch) or tuple(ccur.shape) != tuple(cur.shape):
            break  # programs continue only while the value is still a batch of images
        try:
            cnext = replay(name, fn, ccur)
            fn(cur.as_subclass(torch.Tensor))  # torch itself must accept the operation for this dtype / shape
        except Exception:  # noqa: BLE001
            continue
        prog.append(name)
        before = sum(ctx.violation_counts.values())
        with ctx.guard("program", key=f"exc/{name}/{kind.split('/')[0]}", program=list(prog), subject=kind):
            nxt = fn(cur)
            judge(ctx, name, kind, nxt, cnext, grids, axes, True)
            if sum(ctx.violation_counts.values()) > before:
                break  # attribute a violation to the first operation that shows it
            if isinstance(nxt, (tuple, list)):
                if len(nxt) == 0 or len(nxt) != len(cnext):
                    break
                j = int(rng.integers(0, len(nxt)))
                nxt, cnext = nxt[j], cnext[j]
            cur, ccur = nxt, cnext
            continue
        break
    ctx.nontriv("program", kind, prog)
    if k < 2:
        ctx.sample({"program": prog, "subject": kind})
