r"""C12 — spatial derivatives of flow fields are exact on polynomial fields."""

from __future__ import annotations

import itertools

import numpy as np

from .. import gen
from ..oracle import fields as F
from ..oracle import spline as S

PROPERTY = "C12"
RULE = (
    "Each case draws a flow field shape (D in {2,3}, sizes 5..16), batch size 1..3, a spacing form (scalar, per-axis, "
    "per-item (N,1), per-item per-axis (N,D); float32-representable), random affine coefficients (A, t) per batch "
    "item and symmetric quadratic coefficients, and evaluates every finite-difference mode (forward, backward, "
    "central, forward_central_backward, prewitt, sobel) and the bspline mode: Jacobian, determinant (with/without "
    "identity), divergence, curl and Lie bracket of affine fields against A (whole grid for "
    "forward_central_backward, interior otherwise), second derivatives of quadratic fields in the interior, "
    "symmetry of mixed derivatives, subset-vs-full requests for all key subsets of order <= 2 up to size 4, and "
    "analytic cubic B-spline derivatives. Non-trivial: every case (random dense coefficient matrices); distinct = "
    "hash of shape, spacing and coefficients."
)
ASSUMPTIONS = [
    "finite differences of any offered scheme are exact on affine fields in the interior (margin 2) and second differences on quadratics",
    "float32 data: tolerance 1e-3 relative to the coefficient scale (differences of O(10) values divided by spacings >= 0.25)",
]
ANCHORS = [
    ("deepali.core.flow", "flow_derivatives"),
    ("deepali.core.flow", "jacobian_det"),
    ("deepali.core.flow", "jacobian_dict"),
    ("deepali.core.flow", "jacobian_matrix"),
    ("deepali.core.flow", "divergence"),
    ("deepali.core.flow", "curl"),
    ("deepali.core.flow", "lie_bracket"),
    ("deepali.core.image", "spatial_derivatives"),
    ("deepali.core.image", "finite_differences"),
]
N_CASES = {"quick": 100, "thorough": 5000}
BUDGET = {"quick": 400, "thorough": 3600}
FD_MODES = ["forward", "backward", "central", "forward_central_backward", "prewitt", "sobel"]
SPACING_FORMS = ["none", "scalar", "per_axis", "per_item", "per_item_axis"]


def plan(tier, seed):
    return [["case", i] for i in range(N_CASES[tier])]


def mandatory(tier):
    return [f"mode/{m}" for m in FD_MODES + ["bspline"]] + [f"spacing/{s}" for s in SPACING_FORMS] + ["D/2", "D/3", "subset", "quadratic", "bracket", "curl", "curl/divergence_free_flow", "curl/divergence_free_flow/scalar_fields", "curl/module", "curl/data_classes", "curl/data_classes/per_item_grids", "derivs/unsorted_keys"]


def interior(a, m=2):
    return a[(Ellipsis,) + (slice(m, -m),) * (a.ndim - 2)] if m else a


def run_item(ctx, item):
    import torch
    from deepali.core import flow as U
    from deepali.core.image import spatial_derivatives

    i = item[1]
    rng = ctx.rng()
    D = int(rng.choice([2, 3]))
    shape = tuple(int(rng.integers(5, 17 if D == 2 else 11)) for _ in range(D))
    N = int(rng.integers(1, 4))
    form = SPACING_FORMS[i % len(SPACING_FORMS)]
    ctx.bucket(f"D/{D}")
    ctx.bucket(f"spacing/{form}")
    choices = [0.25, 0.5, 0.75, 1.0, 1.5, 2.0, 2.75]
    if form == "none":
        # documented default of the flow functions: derivatives w.r.t. the normalised cube, spacing 2 / (n - 1)
        h = np.tile(np.array([2.0 / (n - 1) for n in shape[::-1]]), (N, 1))
        arg = None
    elif form == "scalar":
        v = float(rng.choice(choices))
        h = np.full((N, D), v)
        arg = v
    elif form == "per_axis":
        v = rng.choice(choices, size=D)
        h = np.tile(v, (N, 1))
        arg = tuple(float(x) for x in v)
    elif form == "per_item":
        v = rng.choice(choices, size=(N, 1))
        h = np.tile(v, (1, D))
        arg = torch.tensor(v, dtype=torch.float32)
    else:
        h = rng.choice(choices, size=(N, D))
        arg = torch.tensor(h, dtype=torch.float32)
    A = rng.normal(size=(N, D, D))
    t = rng.normal(size=(N, D))
    pos = [F.sample_positions(shape, h[n]) for n in range(N)]
    u_np = np.stack([F.affine_poly(A[n], t[n], pos[n]) for n in range(N)])
    u = torch.tensor(u_np, dtype=torch.float32)
    scale = float(np.abs(A).max()) + 1.0
    tol = 2e-4 * scale * max(shape) / 8 * 4
    desc = dict(shape=list(shape), N=N, spacing_form=form, spacing=h.tolist(), A=A.tolist())
    ctx.nontriv(desc)
    ctx.sample(desc)
    sym = "uvw"[:D]
    ax = "xyz"[:D]
    for mode in FD_MODES:
        ctx.bucket(f"mode/{mode}")
        m = 0 if mode == "forward_central_backward" else 2
        info = dict(mode=mode, spacing_form=form, shape=list(shape), N=N)
        with ctx.guard("flow_derivatives", **info):
            d = U.flow_derivatives(u, mode=mode, spacing=arg)
            ctx.true("first_order_keys", set(d.keys()) == {f"d{c}/d{a}" for c in sym for a in ax}, key="derivs/keys", got=sorted(d.keys()), **info)
            for ci, c in enumerate(sym):
                for ai, a in enumerate(ax):
                    got = interior(d[f"d{c}/d{a}"].numpy(), m)
                    ref = np.broadcast_to(A[:, ci, ai].reshape((N, 1) + (1,) * D), got.shape)
                    ctx.close("jacobian_entry_of_affine_field", got, ref, tol, key=f"derivs/{mode}/first", entry=f"d{c}/d{a}", **info)
            J = U.jacobian_matrix(u, mode=mode, spacing=arg)
            ctx.true("jacobian_matrix_shape", tuple(J.shape) == (N,) + shape + (D, D), key="jacobian/shape", got=list(J.shape), **info)
            Jn = J.numpy()
            Ji = Jn[(slice(None),) + (slice(m, -m if m else None),) * D]
            ctx.close("jacobian_matrix_of_affine_field", Ji, np.broadcast_to(A.reshape((N,) + (1,) * D + (D, D)), Ji.shape), tol, key=f"jacobian/{mode}", **info)
            Jid = U.jacobian_matrix(u, mode=mode, spacing=arg, add_identity=True).numpy()
            ctx.close("jacobian_add_identity", Jid - Jn, np.broadcast_to(np.eye(D), Jn.shape), 1e-5 * scale, key="jacobian/identity", **info)
            for add_id in (True, False):
                # (also for a flow that takes part in an autograd graph: same values)
                ug = u.clone().requires_grad_(True)
                detg = interior(U.jacobian_det(ug * 1.0, mode=mode, spacing=arg, add_identity=add_id).detach().numpy(), m)
                det = interior(U.jacobian_det(u, mode=mode, spacing=arg, add_identity=add_id).numpy(), m)
                ctx.close("jacobian_det_same_under_autograd", detg, det, 1e-6 * (1 + float(np.abs(det).max())), key=f"jacobian_det/{mode}/autograd", add_identity=add_id, **info)
                ref = np.linalg.det(A + (np.eye(D) if add_id else 0)).reshape((N, 1) + (1,) * D)
                ctx.close("jacobian_det_of_affine_field", det, np.broadcast_to(ref, det.shape), tol * scale ** (D - 1) * D, key=f"jacobian_det/{mode}", add_identity=add_id, **info)
            div = interior(U.divergence(u, mode=mode, spacing=arg).numpy(), m)
            ctx.close("divergence_of_affine_field", div, np.broadcast_to(np.trace(A, axis1=1, axis2=2).reshape((N, 1) + (1,) * D), div.shape), tol * D, key=f"divergence/{mode}", **info)
            # the loss wrapper differentiates with the same options: 0.5 div^2 at every point
            from deepali.losses import functional as L

            dl = L.divergence_loss(u, mode=mode, spacing=arg, reduction="none")
            ctx.close("divergence_loss_is_half_squared_divergence_with_same_options", dl, 0.5 * U.divergence(u, mode=mode, spacing=arg).numpy() ** 2, 1e-6 * (1 + float(dl.abs().max())), key=f"divergence/{mode}", via="losses.divergence_loss", **info)
            ctx.bucket("curl")
            crl = interior(U.curl(u, mode=mode, spacing=arg).numpy(), m)
            if D == 2:
                ref = (A[:, 1, 0] - A[:, 0, 1]).reshape((N, 1, 1, 1))
            else:
                ref = np.stack([A[:, 2, 1] - A[:, 1, 2], A[:, 0, 2] - A[:, 2, 0], A[:, 1, 0] - A[:, 0, 1]], axis=1).reshape((N, 3, 1, 1, 1))
            ctx.close("curl_of_affine_field", crl, np.broadcast_to(ref, crl.shape), tol * 2, key=f"curl/{mode}", **info)
            # the layer wrapper computes the same curl, whatever it was applied to before (one instance, two input sizes)
            from deepali.modules.flow import Curl

            ctx.bucket("curl/module")
            layer, layer0 = Curl(mode=mode, spacing=arg), Curl(mode=mode)
            small = u[(slice(None), slice(None)) + (slice(0, -1),) * D]
            layer(small)
            layer0(small)
            ctx.close("curl_layer_of_affine_field", interior(layer(u).numpy(), m), np.broadcast_to(ref, crl.shape), tol * 2, key=f"curl/{mode}", via="modules.Curl", **info)
            ctx.close("curl_layer_without_spacing_equals_function_on_every_input", layer0(u), U.curl(u, mode=mode), 0.0, key=f"curl/{mode}", via="modules.Curl()", **info)
            ctx.true("curl_layer_keeps_its_options", layer0.spacing is None and layer0.mode == mode, key=f"curl/{mode}", via="modules.Curl()", got=repr(layer0.spacing))
            # divergence-free fields built from linear scalar fields: rotated gradient (2-D), cross product of the two gradients (3-D)
            ctx.bucket("curl/divergence_free_flow/scalar_fields")
            if D == 2:
                dfs = interior(U.divergence_free_flow(u[:, :1], mode=mode, spacing=arg).numpy(), m)
                rs = np.stack([-A[:, 0, 1], A[:, 0, 0]], axis=1).reshape((N, 2, 1, 1))
            else:
                dfs = interior(U.divergence_free_flow(u[:, :2], mode=mode, spacing=arg).numpy(), m)
                rs = np.cross(A[:, 0, :], A[:, 1, :]).reshape((N, 3, 1, 1, 1))
            ctx.close("divergence_free_flow_of_linear_scalar_fields", dfs, np.broadcast_to(rs, dfs.shape), tol * 2 * scale, key=f"curl/{mode}", via="divergence_free_flow(scalar fields)", **info)
            if D == 3:
                # documented: for a 3-channel 3-D input divergence_free_flow() is the curl of the field (same options)
                dff = interior(U.divergence_free_flow(u, mode=mode, spacing=arg).numpy(), m)
                ctx.bucket("curl/divergence_free_flow")
                ctx.close("divergence_free_flow_of_vector_field_is_its_curl", dff, np.broadcast_to(ref, dff.shape), tol * 2, key=f"curl/{mode}", via="divergence_free_flow", **info)
        # Lie bracket [v, u] = Jac(v) u - Jac(u) v of two affine fields, per the documented definition
        with ctx.guard("lie_bracket", **info):
            ctx.bucket("bracket")
            B = rng.normal(size=(N, D, D))
            s = rng.normal(size=(N, D))
            w_np = np.stack([F.affine_poly(B[n], s[n], pos[n]) for n in range(N)])
            w = torch.tensor(w_np, dtype=torch.float32)
            lb = interior(U.lie_bracket(w, u, mode=mode, spacing=arg).numpy(), m)
            ref = np.einsum("nij,nj...->ni...", B, u_np) - np.einsum("nij,nj...->ni...", A, w_np)
            btol = tol * (np.abs(u_np).max() + np.abs(w_np).max()) * D
            ctx.close("lie_bracket_of_affine_fields", lb, interior(ref, m), btol, key=f"bracket/{mode}", **info)
            lb2 = interior(U.lie_bracket(u, w, mode=mode, spacing=arg).numpy(), m)
            ctx.close("lie_bracket_antisymmetric", lb2, -lb, btol, key="bracket/antisymmetry", **info)
    # ---- second derivatives of quadratic fields (interior), symmetry of mixed derivatives
    ctx.bucket("quadratic")
    Q = rng.normal(size=(N, D, D, D)) * 0.3
    Q = 0.5 * (Q + np.swapaxes(Q, -1, -2))
    q_np = np.stack([F.quadratic_poly(Q[n], A[n], t[n], pos[n]) for n in range(N)])
    q = torch.tensor(q_np, dtype=torch.float64)
    qtol = 1e-8 * (1 + np.abs(q_np).max())
    for mode in FD_MODES:
        info = dict(mode=mode, spacing_form=form, shape=list(shape), N=N)
        with ctx.guard("flow_derivatives(order=2)", **info):
            d2 = U.flow_derivatives(q, order=2, mode=mode, spacing=arg)
            for ci, c in enumerate(sym):
                for (ai, a), (bi, b) in itertools.product(enumerate(ax), enumerate(ax)):
                    key = f"d{c}/d{a}{b}"
                    got = interior(d2[key].numpy(), 2)
                    if got.size == 0:
                        continue
                    ref = np.broadcast_to(Q[:, ci, ai, bi].reshape((N, 1) + (1,) * D), got.shape)
                    ctx.close("second_derivative_of_quadratic_field", got, ref, qtol * 50, key=f"derivs/{mode}/second", entry=key, **info)
                    if a != b:
                        ctx.close("mixed_derivatives_symmetric", d2[key], d2[f"d{c}/d{b}{a}"], 0.0, key="derivs/mixed_symmetry", entry=key, **info)
    # ---- subset requests return the same values as the full request
    ctx.bucket("subset")
    all_keys = [f"d{c}/d{a}" for c in sym for a in ax] + [f"d{c}/d{a}{b}" for c in sym for a in ax for b in ax]
    mode = FD_MODES[i % len(FD_MODES)]
    info = dict(mode=mode, spacing_form=form)
    with ctx.guard("flow_derivatives(which)", **info):
        full = U.flow_derivatives(q, which=all_keys, mode=mode, spacing=arg)
        ctx.true("full_request_keys", list(full.keys()) == all_keys, key="derivs/keys", **info)
        for _ in range(12):
            k = int(rng.integers(1, 5))
            sub = [all_keys[j] for j in rng.choice(len(all_keys), size=k, replace=False)]
            part = U.flow_derivatives(q, which=sub, mode=mode, spacing=arg)
            ctx.true("subset_request_keys", list(part.keys()) == sub, key="derivs/keys", got=list(part.keys()), want=sub, **info)
            for key in sub:
                ctx.close("subset_equals_full_request", part[key], full[key], 1e-12 * (1 + np.abs(q_np).max()), key="derivs/subset", which=sub, entry=key, **info)
        # shorthand: "x" means every component along x; named key sets
        sh = U.flow_derivatives(q, which="x", mode=mode, spacing=arg)
        ctx.true("shorthand_keys", list(sh.keys()) == [f"d{c}/dx" for c in sym], key="derivs/keys", got=list(sh.keys()), **info)
        for key in sh:
            ctx.close("shorthand_equals_full_request", sh[key], full[key], 1e-12 * (1 + np.abs(q_np).max()), key="derivs/subset", entry=key, **info)
        o2 = U.flow_derivatives(q, which=all_keys, order=2, mode=mode, spacing=arg)
        ctx.true("order_filter", all(len(k.split("/d")[1]) == 2 for k in o2) and len(o2) == D * D * D, key="derivs/keys", got=list(o2.keys()), **info)
    # ---- data classes: FlowFields.curl() / FlowField.curl() of a world-affine field held in each vector representation
    #      on an axis-aligned anisotropic grid; the default spacing is the sample distance in units of the representation,
    #      so the result is the curl of S A S^-1 with S the (diagonal) world -> representation vector scaling
    with ctx.guard("FlowFields.curl", key="exc/FlowFields.curl", shape=list(shape)):
        from deepali.core.grid import Axes, Grid
        from deepali.data.flow import FlowField, FlowFields
        from deepali.data.image import ImageBatch
        from .. import gen
        from ..oracle.ramp import world_positions

        ctx.bucket("curl/data_classes")
        gac = bool(i % 2)
        grid = Grid(shape=shape, spacing=tuple(float(q) for q in gen.f32(h[0])), align_corners=gac)
        rg = gen.ref_of_grid(grid)
        w = world_positions(rg)
        uw = np.stack([np.moveaxis(w @ A[n].T + t[n], -1, 0) for n in range(N)])
        for a in ("world", "grid", "cube", "cube_corners"):
            sa = np.diag(rg.vectors(np.eye(D), "world", a))
            ua = uw * sa.reshape((1, D) + (1,) * D)
            ff = FlowFields(torch.tensor(ua, dtype=torch.float32), grid, Axes(a))
            for mode in ("central", "forward_central_backward"):
                m = 0 if mode == "forward_central_backward" else 2
                res = ff.curl(mode=mode)
                B = sa[None, :, None] * A / sa[None, None, :]
                if D == 2:
                    ref = (B[:, 1, 0] - B[:, 0, 1]).reshape((N, 1, 1, 1))
                else:
                    ref = np.stack([B[:, 2, 1] - B[:, 1, 2], B[:, 0, 2] - B[:, 2, 0], B[:, 1, 0] - B[:, 0, 1]], axis=1).reshape((N, 3, 1, 1, 1))
                ok = ctx.true("flowfields_curl_is_image_batch_on_same_grid", isinstance(res, ImageBatch) and res.grid() == grid and tuple(res.shape[2:]) == shape, key="curl/data_classes/type", axes=a, got=type(res).__name__)
                if ok:
                    got = interior(res.tensor().numpy(), m)
                    ctx.close("flowfields_curl_of_affine_field", got, np.broadcast_to(ref, got.shape), tol * 2 * float(np.abs(B).max() / scale + 1), key=f"curl/data_classes/{a}", mode=mode, align_corners=gac, shape=list(shape))
            if N > 1:
                # one grid per field (same size, other voxel size): default spacing is taken per item
                grids_n = [Grid(shape=shape, spacing=tuple(float(q) for q in gen.f32(h[0] * (1.0 + 0.5 * n_))), align_corners=gac) for n_ in range(N)]
                items = []
                refs_n = []
                for n_, gn in enumerate(grids_n):
                    rgn = gen.ref_of_grid(gn)
                    wn = world_positions(rgn)
                    san = np.diag(rgn.vectors(np.eye(D), "world", a))
                    items.append(np.moveaxis(wn @ A[n_].T + t[n_], -1, 0) * san.reshape((D,) + (1,) * D))
                    Bn = san[:, None] * A[n_] / san[None, :]
                    refs_n.append(np.array([Bn[1, 0] - Bn[0, 1]]) if D == 2 else np.array([Bn[2, 1] - Bn[1, 2], Bn[0, 2] - Bn[2, 0], Bn[1, 0] - Bn[0, 1]]))
                fb = FlowFields(torch.tensor(np.stack(items), dtype=torch.float32), grids_n, Axes(a))
                resb = fb.curl(mode="central")
                gotb = interior(resb.tensor().numpy(), 2)
                refb = np.stack(refs_n).reshape((N, -1) + (1,) * D)
                ctx.close("flowfields_curl_with_per_item_grids", gotb, np.broadcast_to(refb, gotb.shape), tol * 2 * float(np.abs(refb).max() / scale + 1), key=f"curl/data_classes/{a}/per_item_grids", shape=list(shape))
                ctx.bucket("curl/data_classes/per_item_grids")
            one = FlowField(torch.tensor(ua[0], dtype=torch.float32), grid, Axes(a)).curl(mode="central")
            ctx.close("flowfield_curl_equals_batch_item", one.tensor(), ff.curl(mode="central").tensor()[0], 1e-6 * (1 + float(np.abs(ua).max())), key=f"curl/data_classes/{a}", single=True)
    # ---- bspline mode: analytic derivatives of the cubic B-spline with the field as coefficients
    ctx.bucket("mode/bspline")
    stride = tuple(int(rng.integers(1, 4)) for _ in range(D))
    coef = rng.normal(size=(N, D) + shape)
    ct = torch.tensor(coef, dtype=torch.float64)
    info = dict(mode="bspline", stride=list(stride), spacing_form=form, shape=list(shape))
    if arg is None:  # spatial_derivatives() itself defaults to unit spacing; pass the same spacing to both APIs
        arg = tuple(float(x) for x in gen.f32(h[0]))
        h = np.tile(gen.f32(h[0]), (N, 1))
    with ctx.guard("spatial_derivatives(bspline)", **info):
        keys = ["x", "y", "xx", "xy", "yy"] + (["z", "xz", "zz", "yz"] if D == 3 else [])
        got = spatial_derivatives(ct, which=keys, mode="bspline", spacing=arg, stride=stride)
        out_shape = tuple((n - 3) * s for n, s in zip(shape, stride[::-1]))
        for key in keys:
            order = [key.count(a) for a in ax]
            ref = S.evaluate(coef, out_shape, stride, order)
            denom = np.prod(h ** np.asarray(order), axis=1).reshape((N, 1) + (1,) * D)
            ctx.true("bspline_output_shape", tuple(got[key].shape[2:]) == out_shape, key="bspline/shape", got=list(got[key].shape), want=list(out_shape), **info)
            if tuple(got[key].shape[2:]) == out_shape:
                ctx.close("bspline_derivative_vs_analytic", got[key], ref / denom, 5e-7 * (1 + np.abs(ref / denom).max()),  # spacing powers are float32 inside the API
                           key="bspline/derivative", entry=key, **info)
        # a mixed derivative requested with its axes in the other order comes back under the key that was requested, with
        # the same values (mixed derivatives are symmetric), in the spline mode as in the finite-difference modes
        for md in ("bspline", "central"):
            kws = dict(stride=stride) if md == "bspline" else {}
            un = spatial_derivatives(ct, which=["yx", "x"], mode=md, spacing=arg, **kws)
            so = spatial_derivatives(ct, which=["xy", "x"], mode=md, spacing=arg, **kws)
            ok_keys = ctx.true("requested_key_order_is_returned", sorted(un.keys()) == ["x", "yx"], key=f"derivs/keys/unsorted/{md}", got=sorted(un.keys()), mode=md)
            if ok_keys:
                ctx.close("unsorted_mixed_key_equals_sorted", un["yx"], so["xy"], 0.0, key=f"derivs/keys/unsorted/{md}", mode=md)
        ctx.bucket("derivs/unsorted_keys")
        fd = U.flow_derivatives(ct, which=["du/dx", "dv/dy", "du/dxy"], mode="bspline", spacing=arg, stride=stride)
        for key, (c, skey) in {"du/dx": (0, "x"), "dv/dy": (1, "y"), "du/dxy": (0, "xy")}.items():
            ctx.close("flow_derivatives_bspline_is_component_derivative", fd[key], got[skey][:, c : c + 1], 1e-12 * (1 + float(got[skey].abs().max())), key="bspline/flow_derivatives", entry=key, **info)
