r"""C18 — images and flow fields survive a write/read round trip in every supported format."""

from __future__ import annotations

import itertools
import os
import tempfile

import numpy as np

from .. import gen
from ..oracle.coords import AXES, WORLD

PROPERTY = "C18"
RULE = (
    "The finite configuration matrix {.mha, .mhd, .nii, .nii.gz, .nrrd} x D in {2,3} x channels in {1,2,3} x dtype in "
    "{uint8, int16, int32, float32, float64} x compress in {True, False} is enumerated completely in the thorough "
    "tier (several random oriented anisotropic grids per cell) and by a covering subset in the quick tier (every "
    "format x D x channels cell, dtypes and compress cycled). Per configuration: Image.write -> Image.read (bit-exact "
    "values, dtype, channel count, grid), the deepali-written file read by SimpleITK, a SimpleITK-written file read "
    "by deepali, Grid.from_file, read_image/write_image, MetaImage bytes round trip, and FlowField.write/read with "
    "each vector representation (file stores world vectors; field returns to its representation). Non-trivial: "
    "rotated/anisotropic/off-centre grid or multi-channel data; distinct = hash of configuration and grid."
)
ASSUMPTIONS = [
    "SimpleITK is the second, independent reader/writer; files live in a temporary directory removed at exit",
    "header tolerance 1e-5 relative (text / float32 headers, NIfTI quaternion or sform storage); voxel data bit-exact",
]
ANCHORS = [
    ("deepali.utils.imageio", "read_image"),
    ("deepali.utils.imageio", "write_image"),
    ("deepali.utils.imageio.meta", "read_meta_image"),
    ("deepali.utils.imageio.meta", "read_meta_image_from_fileobj"),
    ("deepali.utils.imageio.meta", "write_meta_image"),
    ("deepali.utils.imageio.meta", "meta_image_bytes"),
    ("deepali.utils.imageio.nifti", "read_nifti_image"),
    ("deepali.utils.imageio.nifti", "write_nifti_image"),
    ("deepali.utils.imageio.sitk", "read_sitk_image"),
    ("deepali.utils.imageio.sitk", "write_sitk_image"),
    ("deepali.utils.simpleitk.torch", "image_from_tensor"),
    ("deepali.utils.simpleitk.torch", "tensor_from_image"),
    ("deepali.data.flow", "FlowField.read"),
    ("deepali.data.flow", "FlowField.write"),
]
FORMATS = [".mha", ".mhd", ".nii", ".nii.gz", ".nrrd"]
DTYPES = ["uint8", "int16", "int32", "float32", "float64"]
BUDGET = {"quick": 500, "thorough": 5400}


def cells():
    return [(f, D, C) for f in FORMATS for D in (2, 3) for C in (1, 2, 3)]


def plan(tier, seed):
    items = []
    if tier == "quick":
        for k, (f, D, C) in enumerate(cells()):
            items.append(["config", f, D, C, DTYPES[k % 5], bool(k % 2), 0])
            items.append(["config", f, D, C, DTYPES[(k + 2) % 5], not bool(k % 2), 1])
    else:
        for f, D, C in cells():
            for dt in DTYPES:
                for comp in (True, False):
                    for rep in range(12):
                        items.append(["config", f, D, C, dt, comp, rep])
    items += [["flow", f, D, a, r] for f in FORMATS for D in (2, 3) for a in AXES for r in range(2 if tier == "quick" else 12)]
    items += [["sequence", D, r] for D in (2, 3) for r in range(4 if tier == "quick" else 120)]
    return items


def mandatory(tier):
    return [f"format/{f}" for f in FORMATS] + [f"dtype/{d}" for d in DTYPES] + ["D/2", "D/3", "C/1", "C/2", "C/3", "compress/True", "compress/False", "flow", "sitk_reads_deepali", "deepali_reads_sitk", "meta_bytes", "header_text", "sequence", "noncontiguous_input", "flow/default_axes", "singleton_axis", "singleton_axis/nifti/C1", "singleton_axis/other/C1", "overwrite_same_path"]


class KeyCtx:
    r"""Proxy that files every observation of one work item under a single mechanism key."""

    def __init__(self, ctx, key):
        self._ctx, self._key = ctx, key

    def __getattr__(self, name):
        return getattr(self._ctx, name)

    def true(self, name, cond, key=None, **info):
        return self._ctx.true(name, cond, key=self._key, **info)

    def close(self, name, got, ref, tol, key=None, **info):
        return self._ctx.close(name, got, ref, tol, key=self._key, **info)

    def guard(self, site, key=None, **kw):
        return self._ctx.guard(site, key=self._key, **kw)


def is_nifti(f):
    return f.startswith(".nii")


def kind_of(f, D, C):
    return f"{'nifti' if is_nifti(f) else f}/D{D}/{'scalar' if C == 1 else 'multichannel'}"


def header_close(ctx, name, g, size, origin, spacing, direction, key, **info):
    D = len(size)
    ctx.true(f"{name}_size", [int(k) for k in g.size()] == [int(k) for k in size], key=key + "/size", got=list(g.size()), want=list(size), **info)
    scale = float(np.abs(origin).max() + np.abs(np.asarray(spacing) * np.asarray(size)).max())
    ctx.close(f"{name}_origin", g.origin(), np.asarray(origin), 2e-5 * (1 + scale), key=key + "/origin", **info)
    ctx.close(f"{name}_spacing", g.spacing(), np.asarray(spacing), 2e-5 * np.asarray(spacing), key=key + "/spacing", **info)
    ctx.close(f"{name}_direction", g.direction(), np.asarray(direction).reshape(D, D), 2e-5, key=key + "/direction", **info)


def run_item(ctx, item):
    if item[0] == "flow":
        return flow_item(ctx, *item[1:])
    if item[0] == "sequence":
        return sequence_item(ctx, *item[1:])
    return config_item(ctx, *item[1:])


def config_item(ctx, fmt, D, C, dtype, compress, rep):
    import SimpleITK as sitk
    import torch
    from deepali.core.grid import Grid
    from deepali.data.image import Image
    from deepali.utils.imageio import read_image, write_image

    rng = ctx.rng()
    if is_nifti(fmt) and C > 1:
        # NIfTI stores vector images in ITK's 5-D layout with an intent code: one mechanism, one key
        ctx = KeyCtx(ctx, "nifti/multichannel")
    p = gen.rand_grid_params(rng, D, max_size=9, min_size=2, route="origin")
    if rep % 2 == 1 and D == 3 and (C == 1 or rng.integers(0, 2)):
        # a single slice / single row volume: one spatial axis of size 1 must survive the round trip
        p["size"][int(rng.integers(0, D))] = 1
        ctx.bucket("singleton_axis")
        ctx.bucket(f"singleton_axis/{'nifti' if is_nifti(fmt) else 'other'}/C{min(C, 2)}")
    g = gen.make_grid(p)
    ref = gen.ref_grid(p)
    shape = tuple(p["size"][::-1])
    npdt = np.dtype(dtype)
    if npdt.kind in "iu":
        info_ = np.iinfo(npdt)
        arr = rng.integers(max(info_.min, -30000), min(info_.max, 30000), size=(C,) + shape).astype(npdt)
    else:
        arr = rng.normal(size=(C,) + shape).astype(npdt)
    if rep % 2 == 0 and D + 1 > 2:
        # the same logical values held in a permuted (Fortran-ordered) view: writers must not depend on memory order
        data = torch.from_numpy(np.asfortranarray(arr.copy()))
        ctx.bucket("noncontiguous_input")
        assert not data.is_contiguous() or min(arr.shape) == 1
    else:
        data = torch.from_numpy(arr.copy())
    for b in (f"format/{fmt}", f"dtype/{dtype}", f"D/{D}", f"C/{C}", f"compress/{compress}"):
        ctx.bucket(b)
    info = dict(format=fmt, D=D, C=C, dtype=dtype, compress=compress)
    if gen.grid_nontrivial(p) or C > 1:
        ctx.nontriv(info, p)
    if rep == 0 and fmt == ".mha" and D == 2:
        ctx.sample({"config": info, "grid": p})
    kind = kind_of(fmt, D, C)
    with tempfile.TemporaryDirectory(prefix="vmon-c18-") as tmp:
        path = os.path.join(tmp, "a" + fmt)
        # ---------------- deepali writes, deepali reads
        wrote = False
        with ctx.guard("Image.write", key=f"exc/write/{kind}", **info):
            Image(data, g).write(path, compress=compress)
            wrote = os.path.exists(path)
        if wrote and fmt in (".mha", ".mhd"):
            # the text header itself: every float32 grid attribute is stored with all its digits (a shorter decimal
            # form moves the grid by up to 5e-6 of its offset, below the tolerance of the float32 geometry checks)
            with ctx.guard("MetaImage header text", key=f"exc/header_text/{fmt}", **info):
                raw = open(path, "rb").read()
                head = raw.split(b"ElementDataFile")[0].decode("ascii", "replace")
                fields = {ln.split("=")[0].strip(): ln.split("=", 1)[1].split() for ln in head.splitlines() if "=" in ln}
                off = fields.get("Offset") or fields.get("Origin") or fields.get("Position")
                ctx.bucket("header_text")
                if ctx.true("header_has_offset_and_spacing", off is not None and "ElementSpacing" in fields, key=f"header_text/{fmt}/fields", fields=sorted(fields), **info):
                    want_o, want_s = g.origin().double().numpy(), g.spacing().double().numpy()
                    ctx.close("header_text_offset_has_all_digits", np.array([float(x) for x in off]), want_o, 1.5e-7 * np.abs(want_o) + 1e-30, key=f"header_text/{fmt}/offset", text=off, **info)
                    ctx.close("header_text_spacing_has_all_digits", np.array([float(x) for x in fields["ElementSpacing"]]), want_s, 1.5e-7 * np.abs(want_s), key=f"header_text/{fmt}/spacing", text=fields["ElementSpacing"], **info)
        if wrote:
            with ctx.guard("Image.read", key=f"exc/read_own/{kind}", **info):
                im = Image.read(path)
                ctx.true("roundtrip_shape_channels", tuple(im.shape) == (C,) + shape, key=f"roundtrip/{kind}/shape", got=list(im.shape), want=[C] + list(shape), **info)
                ctx.true("roundtrip_dtype", im.dtype == data.dtype, key=f"roundtrip/{kind}/dtype", got=str(im.dtype), want=str(data.dtype), **info)
                if tuple(im.shape) == (C,) + shape:
                    ctx.true("roundtrip_values_bit_exact", bool((im.tensor().double() == data.double()).all()), key=f"roundtrip/{kind}/values", n_diff=int((im.tensor().double() != data.double()).sum()), **info)
                header_close(ctx, "roundtrip", im.grid(), p["size"], ref.o, ref.s, ref.R, f"roundtrip/{kind}", **info)
                d2, g2 = read_image(path)
                ctx.true("read_image_equals_Image_read", bool((d2 == im.tensor()).all()) and g2 == im.grid(), key=f"roundtrip/{kind}/read_image", **info)
                g3 = Grid.from_file(path)
                header_close(ctx, "grid_from_file", g3, p["size"], ref.o, ref.s, ref.R, f"from_file/{kind}", **info)
            # ---------------- SimpleITK reads the deepali-written file
            with ctx.guard("sitk.ReadImage(deepali file)", key=f"exc/sitk_reads/{kind}", **info):
                ctx.bucket("sitk_reads_deepali")
                s = sitk.ReadImage(path)
                ctx.true("sitk_sees_size", list(s.GetSize()) == [int(k) for k in p["size"]], key=f"sitk_reads/{kind}/size", got=list(s.GetSize()), want=p["size"], **info)
                ctx.true("sitk_sees_channels", s.GetNumberOfComponentsPerPixel() == C, key=f"sitk_reads/{kind}/channels", got=s.GetNumberOfComponentsPerPixel(), want=C, **info)
                scale = float(np.abs(ref.o).max() + np.abs(ref.s * ref.n).max())
                ctx.close("sitk_sees_origin", np.array(s.GetOrigin()), ref.o, 2e-5 * (1 + scale), key=f"sitk_reads/{kind}/origin", **info)
                ctx.close("sitk_sees_spacing", np.array(s.GetSpacing()), ref.s, 2e-5 * ref.s, key=f"sitk_reads/{kind}/spacing", **info)
                ctx.close("sitk_sees_direction", np.array(s.GetDirection()).reshape(D, D), ref.R, 2e-5, key=f"sitk_reads/{kind}/direction", **info)
                a = sitk.GetArrayFromImage(s)
                a = a[None] if C == 1 else np.moveaxis(a, -1, 0)
                ok = a.shape == arr.shape
                ctx.true("sitk_sees_values", ok and bool((a.astype(np.float64) == arr.astype(np.float64)).all()), key=f"sitk_reads/{kind}/values", got_shape=list(a.shape), **info)
        # ---------------- SimpleITK writes, deepali reads
        with ctx.guard("Image.read(sitk file)", key=f"exc/read_sitk_file/{kind}", **info):
            ctx.bucket("deepali_reads_sitk")
            path2 = os.path.join(tmp, "b" + fmt)
            sarr = arr[0] if C == 1 else np.moveaxis(arr, 0, -1)
            s = sitk.GetImageFromArray(np.ascontiguousarray(sarr), isVector=C > 1)
            s.SetOrigin([float(x) for x in ref.o])
            s.SetSpacing([float(x) for x in ref.s])
            s.SetDirection([float(x) for x in ref.R.flatten()])
            sitk.WriteImage(s, path2, useCompression=bool(compress))
            back = sitk.ReadImage(path2)  # what ITK itself reads back is the reference
            im = Image.read(path2)
            ba = sitk.GetArrayFromImage(back)
            ba = ba[None] if back.GetNumberOfComponentsPerPixel() == 1 else np.moveaxis(ba, -1, 0)
            ctx.true("reads_itk_file_shape", tuple(im.shape) == ba.shape, key=f"reads_sitk/{kind}/shape", got=list(im.shape), want=list(ba.shape), **info)
            if tuple(im.shape) == ba.shape:
                ctx.true("reads_itk_file_values", bool((im.tensor().double().numpy() == ba.astype(np.float64)).all()), key=f"reads_sitk/{kind}/values", **info)
            header_close(ctx, "reads_itk_file", im.grid(), back.GetSize(), np.array(back.GetOrigin()), np.array(back.GetSpacing()), np.array(back.GetDirection()), f"reads_sitk/{kind}", **info)
        # ---------------- MetaImage bytes
        if fmt == ".mha":
            with ctx.guard("meta_image_bytes", key=f"exc/meta_bytes/D{D}/{'scalar' if C == 1 else 'multichannel'}", **info):
                from deepali.utils.imageio.meta import meta_image_bytes, read_meta_image

                ctx.bucket("meta_bytes")
                meta = {"CompressedData": compress, "ElementNumberOfChannels": C, "ElementSpacing": ref.s, "Offset": ref.o, "TransformMatrix": ref.R}
                raw = arr[0] if C == 1 else np.moveaxis(arr, 0, -1)
                blob = meta_image_bytes(raw, meta)
                d3, g3 = read_meta_image(blob)
                ctx.true("meta_bytes_values", tuple(d3.shape) == arr.shape and bool((d3.numpy() == arr).all()), key=f"meta_bytes/D{D}/values", got=list(d3.shape), **info)
                header_close(ctx, "meta_bytes", g3, p["size"], ref.o, ref.s, ref.R, f"meta_bytes/D{D}", **info)
        else:
            ctx.bucket("meta_bytes", 0)


def flow_item(ctx, fmt, D, axes, rep):
    import SimpleITK as sitk
    import torch
    from deepali.core.grid import Axes
    from deepali.data.flow import FlowField

    rng = ctx.rng()
    ctx.bucket("flow")
    if is_nifti(fmt):
        ctx = KeyCtx(ctx, "nifti/multichannel")
    p = gen.rand_grid_params(rng, D, max_size=8, min_size=3, route="origin")
    g = gen.make_grid(p)
    ref = gen.ref_of_grid(g)
    shape = tuple(p["size"][::-1])
    world = rng.normal(size=shape + (D,)).astype(np.float32).astype(np.float64)
    data = np.moveaxis(ref.vectors(world, WORLD, axes), -1, 0)
    own = "cube_corners" if g.align_corners() else "cube"
    if rep % 2 == 1 and axes == own:
        # axes left out: the documented default is the cube convention of the field's own grid
        ff = FlowField(torch.tensor(data, dtype=torch.float32), g)
        ctx.bucket("flow/default_axes")
        ctx.bucket(f"flow/default_axes/align_corners={g.align_corners()}")
    else:
        ff = FlowField(torch.tensor(data, dtype=torch.float32), g, Axes(axes))
    info = dict(format=fmt, D=D, axes=axes)
    ctx.nontriv(info, p)
    kind = f"flow/{fmt}/D{D}"
    with tempfile.TemporaryDirectory(prefix="vmon-c18-") as tmp:
        path = os.path.join(tmp, "f" + fmt)
        ok = False
        with ctx.guard("FlowField.write", key=f"exc/write/{kind_of(fmt, D, D)}", **info):
            ff.write(path)
            ok = os.path.exists(path)
        if not ok:
            return
        tol = 1e-5 * (1 + float(np.abs(world).max()))
        with ctx.guard("sitk.ReadImage(flow file)", key=f"exc/sitk_reads/{kind_of(fmt, D, D)}", **info):
            s = sitk.ReadImage(path)
            a = sitk.GetArrayFromImage(s).astype(np.float64)
            ctx.true("flow_file_is_vector_image", s.GetNumberOfComponentsPerPixel() == D and a.shape == world.shape, key=f"{kind}/file_layout", got=[s.GetNumberOfComponentsPerPixel(), list(a.shape)], **info)
            if a.shape == world.shape:
                ctx.close("file_stores_world_vectors", a, world, tol, key=f"{kind}/world_vectors", **info)
        with ctx.guard("FlowField.read", key=f"exc/read_own/{kind_of(fmt, D, D)}", **info):
            back = FlowField.read(path)
            ctx.true("read_flow_axes_world", back.axes() is Axes.WORLD, key=f"{kind}/axes", got=str(back.axes()), **info)
            if tuple(back.shape) == (D,) + shape:
                ctx.close("read_flow_world_vectors", np.moveaxis(back.tensor().double().numpy(), 0, -1), world, tol, key=f"{kind}/world_vectors", **info)
                orig = back.axes(Axes(axes))
                ctx.close("flow_returns_to_original_representation", orig.tensor(), data, 1e-4 * (1 + float(np.abs(data).max())), key=f"{kind}/representation", **info)
            else:
                ctx.true("read_flow_shape", False, key=f"{kind}/shape", got=list(back.shape), want=[D] + list(shape), **info)
            ctx.true("write_left_field_unchanged", ff.axes() is Axes(axes), key=f"{kind}/receiver", **info)


def sequence_item(ctx, D, rep):
    r"""Reads in one process must not depend on what was read before: every file is read in a shuffled sequence
    (twice) next to files of other formats, channel counts and geometries, and compared with SimpleITK's reading."""
    import SimpleITK as sitk
    import torch
    from deepali.data.image import Image

    rng = ctx.rng()
    ctx.bucket("sequence")
    files = []
    with tempfile.TemporaryDirectory(prefix="vmon-c18-seq-") as tmp:
        k = 0
        for fmt in (".mha", ".mha", ".mhd", ".nrrd", ".nii.gz", ".mha"):
            C = int(rng.choice([1, 1, 2, 3])) if not is_nifti(fmt) else 1
            p = gen.rand_grid_params(rng, D, max_size=7, min_size=2, route="origin")
            ref = gen.ref_grid(p)
            shape = tuple(p["size"][::-1])
            arr = rng.normal(size=(C,) + shape).astype(np.float32)
            path = os.path.join(tmp, f"f{k}{fmt}")
            writer = "deepali" if k % 2 == 0 else "sitk"
            if writer == "deepali":
                Image(torch.from_numpy(arr.copy()), gen.make_grid(p)).write(path)
            else:
                sarr = arr[0] if C == 1 else np.moveaxis(arr, 0, -1)
                im_ = sitk.GetImageFromArray(np.ascontiguousarray(sarr), isVector=C > 1)
                im_.SetOrigin([float(x) for x in ref.o])
                im_.SetSpacing([float(x) for x in ref.s])
                im_.SetDirection([float(x) for x in ref.R.flatten()])
                sitk.WriteImage(im_, path)
            files.append((path, fmt, C, writer))
            k += 1
        # a valid MetaImage with a minimal header: no Offset, no TransformMatrix, no channel count (defaults apply)
        n_min = [int(v) for v in rng.integers(2, 6, size=D)]
        raw = rng.normal(size=tuple(n_min[::-1])).astype("<f4")
        head = f"ObjectType = Image\nNDims = {D}\nDimSize = {' '.join(str(v) for v in n_min)}\nElementType = MET_FLOAT\nElementSpacing = {' '.join(['1.5'] * D)}\nElementByteOrderMSB = False\nElementDataFile = LOCAL\n"
        path = os.path.join(tmp, "minimal.mha")
        with open(path, "wb") as f:
            f.write(head.encode("ascii") + raw.tobytes())
        files.append((path, ".mha", 1, "minimal-header"))
        order = list(rng.permutation(len(files))) + list(rng.permutation(len(files)))
        prev = None
        first_minimal = None
        for j in order:
            path, fmt, C, writer = files[j]
            info = dict(file=os.path.basename(path), writer=writer, C=C, D=D, read_before=prev)
            with ctx.guard("Image.read in sequence", key=f"exc/sequence/{writer}", **info):
                back = sitk.ReadImage(path)
                ba = sitk.GetArrayFromImage(back)
                ba = ba[None] if back.GetNumberOfComponentsPerPixel() == 1 else np.moveaxis(ba, -1, 0)
                im = Image.read(path)
                ok = ctx.true("sequence_read_shape", tuple(im.shape) == ba.shape, key=f"sequence/{writer}/shape", got=list(im.shape), want=list(ba.shape), **info)
                if ok:
                    ctx.true("sequence_read_values", bool((im.tensor().double().numpy() == ba.astype(np.float64)).all()), key=f"sequence/{writer}/values", **info)
                if writer != "minimal-header":
                    header_close(ctx, "sequence_read", im.grid(), back.GetSize(), np.array(back.GetOrigin()), np.array(back.GetSpacing()), np.array(back.GetDirection()), f"sequence/{writer}", **info)
                else:
                    # defaults for tags a header leaves out are the library's own choice (it centres the grid, ITK puts
                    # the first sample at 0): outside the statement. What must hold: the same file reads the same way
                    # whatever was read before it.
                    g_ = im.grid()
                    sig = (list(g_.size()), g_.origin().tolist(), g_.spacing().tolist(), g_.direction().flatten().tolist())
                    if first_minimal is None:
                        first_minimal = (sig, prev)
                    else:
                        ctx.true("minimal_header_reads_the_same_after_any_other_file", sig == first_minimal[0], key="sequence/minimal-header/repeatable", got=sig, first=first_minimal[0], first_read_after=first_minimal[1], **info)
            prev = os.path.basename(path)
        # a path is a name, not a content: a file that was overwritten (another image on another grid) is read as what it
        # now holds, by Image.read and by the header-only Grid.from_file; and writing leaves the image and its grid alone
        from deepali.core.grid import Grid

        for fmt in (".mha", ".nii.gz", ".nrrd"):
            with ctx.guard("overwrite and re-read", key=f"exc/overwrite/{fmt}", D=D):
                path = os.path.join(tmp, "same_name" + fmt)
                seen = []
                for gen_ in range(2):
                    p = gen.rand_grid_params(rng, D, max_size=7, min_size=2, route="origin")
                    arr = rng.normal(size=(1,) + tuple(p["size"][::-1])).astype(np.float32)
                    grid = gen.make_grid(p)
                    g_before = (list(grid.size()), grid.origin().tolist(), grid.spacing().tolist(), grid.direction().flatten().tolist(), grid.center().tolist())
                    img_ = Image(torch.from_numpy(arr.copy()), grid)
                    img_.write(path)
                    back = sitk.ReadImage(path)
                    header_close(ctx, "from_file_after_overwrite", Grid.from_file(path), back.GetSize(), np.array(back.GetOrigin()), np.array(back.GetSpacing()), np.array(back.GetDirection()), f"overwrite/{fmt}/from_file", generation=gen_)
                    header_close(ctx, "read_after_overwrite", Image.read(path).grid(), back.GetSize(), np.array(back.GetOrigin()), np.array(back.GetSpacing()), np.array(back.GetDirection()), f"overwrite/{fmt}/read", generation=gen_)
                    g_after = (list(grid.size()), grid.origin().tolist(), grid.spacing().tolist(), grid.direction().flatten().tolist(), grid.center().tolist())
                    ctx.true("writing_leaves_the_grid_unchanged", g_after == g_before and bool((img_.tensor().numpy() == arr).all()), key=f"write_mutates/{fmt}", before=g_before[1:4], after=g_after[1:4])
                    # the same image written again gives a file that reads the same
                    path2 = os.path.join(tmp, f"again{gen_}" + fmt)
                    img_.write(path2)
                    b2 = sitk.ReadImage(path2)
                    ctx.close("second_write_of_same_image_same_header", np.concatenate([np.array(b2.GetOrigin()), np.array(b2.GetSpacing()), np.array(b2.GetDirection())]), np.concatenate([np.array(back.GetOrigin()), np.array(back.GetSpacing()), np.array(back.GetDirection())]), 1e-6 * (1 + float(np.abs(np.array(back.GetOrigin())).max())), key=f"write_mutates/{fmt}")
                ctx.bucket("overwrite_same_path")
        ctx.nontriv("sequence", D, rep)
