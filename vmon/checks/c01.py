r"""C01 — grid coordinate systems (index, cube, cube-corners, world) map consistently."""

from __future__ import annotations

import itertools

import numpy as np

from .. import gen
from ..oracle.coords import AXES, CORNERS, CUBE, GRID, WORLD, RefGrid

PROPERTY = "C01"
RULE = (
    "Each case draws a pair of random oriented grids (D in {2,3}; sizes 2..max incl. odd/even/minimal; "
    "spacing from fixed and log-uniform sets; centre/origin 0, O(1), O(100); direction identity, signed "
    "permutation, random rotation) and enumerates all 16 ordered axes pairs x {same grid, second grid} x "
    "{default rounding, decimals=None} for points, vectors and matrices, all 64 triples, the documented "
    "anchors, every coords()/points() option combination and identity resampling; the per-axis lattice "
    "n=1..4096 x both conventions is enumerated exhaustively. A case is non-trivial when a grid is rotated, "
    "anisotropic or off-centre; distinct = hash of the generated grid parameters."
)
ASSUMPTIONS = [
    "oracle vmon.oracle.coords written from the documented anchors (float64 numpy), independent of deepali",
    "tolerance = 64 * eps32 * forward error bound of the affine chain + rounding quantum (DESIGN 2.4)",
    "CPU tensors only; D in {2,3}",
]
ANCHORS = [
    ("deepali.core.grid", "Grid.transform"),
    ("deepali.core.grid", "Grid.transform_vectors"),
    ("deepali.core.grid", "Grid.apply_transform"),
    ("deepali.core.grid", "Grid.coords"),
    ("deepali.core.grid", "Grid.points"),
    ("deepali.core.linalg", "homogeneous_matmul"),
    ("deepali.core.linalg", "homogeneous_transform"),
    ("deepali.core.linalg", "homogeneous_matrix"),
    ("deepali.core.cube", "Cube.transform"),
    ("deepali.core.cube", "Cube.apply_transform"),
    ("deepali.core.math", "round_decimals"),
]
BUDGET = {"quick": 300, "thorough": 3000}

N_CASES = {"quick": 160, "thorough": 6000}
LATTICE_MAX = 4096


def plan(tier, seed):
    items = [["case", i] for i in range(N_CASES[tier])]
    chunk = 256
    items += [["lattice", lo, min(lo + chunk - 1, LATTICE_MAX)] for lo in range(1, LATTICE_MAX + 1, chunk)]
    return items


def mandatory(tier):
    out = ["derived_grid", "derived_grid/fractional_internal_size"]
    for a, b in itertools.product(AXES, AXES):
        for g in ("same", "other", "same_domain"):
            out.append(f"points/{a}->{b}/{g}")
            out.append(f"vectors/{a}->{b}/{g}")
    out += ["lattice/True", "lattice/False", "identity_resample", "anchors", "coords_options", "cube", "cube/helpers", "int_input"]
    out += [f"image_sample_sublattice/{a}->{b}" for a in (True, False) for b in (True, False)]
    return out


def run_item(ctx, item):
    if item[0] == "lattice":
        return lattice(ctx, item[1], item[2])
    # A grid with a single sample along an axis has no cube-corners normalisation (2 / (n - 1)): the float64 oracle
    # itself is then inf / nan. Such comparisons are counted, not judged; all other maps of the same grid are.
    orig = ctx.close

    def close(name, got, ref, tol, **kw):
        r = np.asarray(ref.detach().cpu().numpy() if hasattr(ref, "detach") else ref, dtype=np.float64)
        t = np.asarray(tol, dtype=np.float64)
        if not np.isfinite(r).all() or not np.isfinite(t).all():
            ctx.count("degenerate_reference/" + name)
            return True
        return orig(name, got, ref, tol, **kw)

    ctx.close = close
    try:
        return case(ctx, item[1])
    finally:
        ctx.close = orig


# ----------------------------------------------------------------------------------------------
def lattice(ctx, lo, hi):
    import torch
    from deepali.core.grid import Grid

    for n in range(lo, hi + 1):
        for ac in (True, False):
            g = Grid(size=(n, 2), align_corners=ac)
            with ctx.guard("Grid.coords(dim)", n=n, align_corners=ac):
                c = g.coords(dim=0, align_corners=ac)
                ctx.bucket(f"lattice/{ac}")
                # (the docstring says "1D tensor"; the code returns (n, 1): the property only fixes the count)
                ctx.true("lattice_count", c.numel() == n, n=n, align_corners=ac, got=list(c.shape))
                if c.numel() != n:
                    continue
                c = c.reshape(-1)
                i = np.arange(n, dtype=np.float64)
                if n == 1:
                    ref = np.zeros(1)
                elif ac:
                    ref = 2 * i / (n - 1) - 1
                else:
                    ref = (2 * i + 1) / n - 1
                ctx.close("lattice_values", c, ref, 4e-7, n=n, align_corners=ac)
                ctx.true("lattice_in_unit_cube", bool((c.abs() <= 1).all()), n=n, align_corners=ac, max=float(c.abs().max()))
            if n % 64 == 1 and n > 1:
                # full coords of a 2-D grid with this n along y as well
                with ctx.guard("Grid.coords", n=n):
                    g2 = Grid(size=(3, n), align_corners=ac)
                    c2 = g2.coords(align_corners=ac)
                    ctx.true("lattice_shape_2d", tuple(c2.shape) == (n, 3, 2), n=n, got=list(c2.shape))
        ctx.nontriv("lattice", n)


def hom_np(M, D):
    M = M.double().numpy()
    if M.shape == (D, D):
        M = np.concatenate([M, np.zeros((D, 1))], axis=1)
    return M


def axes_enum(name):
    from deepali.core.grid import Axes

    return Axes(name)


def sample_in_axes(rng, ref: RefGrid, axes: str, lead):
    r"""Points given w.r.t. ``axes`` that lie in and moderately around the grid domain."""
    n = ref.n
    idx = gen.rand_points(rng, -0.5 * n - 0.5, 1.5 * n - 0.5, lead)
    x = ref.points(idx, GRID, axes)
    return gen.f32(x)


def case(ctx, i):
    import torch
    import torch.nn.functional as F
    from deepali.core import grid as G
    from deepali.core.grid import Axes, Grid

    rng = ctx.rng()
    D = int(rng.choice([2, 3]))
    max_size = 24 if ctx.tier == "quick" else int(rng.choice([12, 24, 64, 257]))
    if D == 3:
        max_size = min(max_size, 48)
    p1 = gen.rand_grid_params(rng, D, max_size=max_size)
    p2 = gen.rand_grid_params(rng, D, max_size=max_size)
    with ctx.guard("Grid()", params=p1):
        g1 = gen.make_grid(p1)
        g2 = gen.make_grid(p2)
    r1, r2 = gen.ref_grid(p1), gen.ref_grid(p2)
    if i % 4 == 3 and min(p1["size"]) >= 5:
        # a derived grid: down/resampling leaves a fractional internal size (33 -> 16.5, reported 17); every map of
        # the family must then use the reported size. The oracle is rebuilt from the attributes the grid reports.
        how = str(rng.choice(["downsample", "resample", "pyramid"]))
        with ctx.guard("derive first grid", params=p1, how=how):
            if how == "downsample":
                g1 = g1.downsample(1)
            elif how == "resample":
                g1 = g1.resample(float(g1.spacing().min()) * float(rng.uniform(1.2, 1.9)))
            else:
                g1 = g1.pyramid(2)[1]
        r1 = gen.ref_of_grid(g1)
        p1 = dict(p1, derived=how, size=[int(k) for k in g1.size()])
        frac = bool((g1._size != g1._size.round()).any())
        ctx.bucket("derived_grid")
        if frac:
            ctx.bucket("derived_grid/fractional_internal_size")
    if gen.grid_nontrivial(p1) or gen.grid_nontrivial(p2):
        ctx.nontriv(p1, p2)
    ctx.sample({"grid": p1, "second_grid": p2})
    ax = {a: Axes(a) for a in AXES}
    eps = 1.2e-7
    K = 64.0

    def quantum(to_axes, decimals, dtype):
        if decimals is None:
            return 0.0
        if to_axes == GRID:
            return 1e-6  # twice the rounding quantum of 6 decimals
        if to_axes in (CUBE, CORNERS):
            return 1e-12
        return 0.0

    # a third grid: another sampling of the *same* world domain (resolution level / resized grid); maps between the two
    # still go through the sizes of both grids (index axes, and cube axes of the other convention)
    with ctx.guard("same-domain grid", params=p1):
        g3 = g1.downsample(1) if (i % 2 and min(int(k) for k in g1.size()) >= 4) else g1.resize(tuple(int(k) + 1 + (j % 2) for j, k in enumerate(g1.size())))
    r3 = gen.ref_of_grid(g3)
    pair_idx = 0
    for a, b in itertools.product(AXES, AXES):
        for which, g_to, r_to in (("same", None, None), ("other", g2, r2), ("same_domain", g3, r3)):
            pair_idx += 1
            lead = gen.LEADING_SHAPES[(i + pair_idx) % len(gen.LEADING_SHAPES)]
            dtype = torch.float64 if (i + pair_idx) % 3 == 0 else torch.float32
            x = sample_in_axes(rng, r1, a, lead)
            xt = torch.tensor(x, dtype=dtype)
            ref = r1.points(x, a, b, r_to)
            tol0 = r1.tol(np.abs(x), a, b, r_to, eps=eps, k=K)
            info = dict(axes=a, to_axes=b, to_grid=which, lead=list(lead), dtype=str(dtype))
            # --- points, both rounding modes
            for decimals in (-1, None):
                with ctx.guard("Grid.transform_points", **info):
                    y = g1.transform_points(xt, ax[a], ax[b], to_grid=g_to, decimals=decimals)
                    ctx.bucket(f"points/{a}->{b}/{which}")
                    ctx.true("points_shape_dtype", y.shape == xt.shape and y.dtype == xt.dtype, got=[list(y.shape), str(y.dtype)], **info)
                    q = quantum(b, decimals, dtype)
                    ctx.close("points_vs_oracle", y, ref, tol0 + q, decimals=decimals, **info)
            # --- vectors
            v = gen.f32(rng.normal(size=tuple(lead) + (D,)))
            vt = torch.tensor(v, dtype=dtype)
            vref = r1.vectors(v, a, b, r_to)
            vtol = r1.tol(np.abs(v), a, b, r_to, eps=eps, k=K, vectors=True)
            with ctx.guard("Grid.transform_vectors", **info):
                w = g1.transform_vectors(vt, ax[a], ax[b], to_grid=g_to)
                ctx.bucket(f"vectors/{a}->{b}/{which}")
                ctx.close("vectors_vs_oracle", w, vref, vtol, **info)
            if a != b:
                # integer-typed input (index offsets, Python int lists) is converted to floating point first
                with ctx.guard("Grid.transform_vectors(int)", key="exc/int_input", **info):
                    vi = rng.integers(-3, 4, size=(4, D))
                    viref = r1.vectors(vi.astype(np.float64), a, b, r_to)
                    vitol = r1.tol(np.abs(vi).astype(np.float64), a, b, r_to, eps=eps, k=K, vectors=True)
                    for form, arg in (("int64", torch.tensor(vi, dtype=torch.int64)), ("int32", torch.tensor(vi, dtype=torch.int32)), ("list", vi.tolist())):
                        wi = g1.transform_vectors(arg, ax[a], ax[b], to_grid=g_to)
                        ctx.true("integer_vectors_give_floating_point_result", torch.is_floating_point(wi), key="vectors/int_input", form=form, got=str(wi.dtype), **info)
                        ctx.close("integer_vectors_vs_oracle", wi.double(), viref, vitol, key="vectors/int_input", form=form, **info)
                    pi = rng.integers(0, 5, size=(4, D))
                    piref = r1.points(pi.astype(np.float64), a, b, r_to)
                    pitol = r1.tol(np.abs(pi).astype(np.float64), a, b, r_to, eps=eps, k=K)
                    yi = g1.transform_points(torch.tensor(pi, dtype=torch.int64), ax[a], ax[b], to_grid=g_to, decimals=None)
                    ctx.close("integer_points_vs_oracle", yi.double(), piref, pitol, key="points/int_input", **info)
                    ctx.bucket("int_input")
            with ctx.guard("Grid.apply_transform(vectors)", **info):
                w2 = g1.apply_transform(vt, ax[a], ax[b], to_grid=g_to, vectors=True, decimals=None)
                ctx.close("apply_transform_vectors_vs_oracle", w2, vref, vtol, **info)
            # --- matrices: their action on the sample points, evaluated in float64
            with ctx.guard("Grid.transform", **info):
                M = g1.transform(ax[a], ax[b], to_grid=g_to, vectors=False)
                L = g1.transform(ax[a], ax[b], to_grid=g_to, vectors=True)
                # a pure scaling (cube <-> cube_corners) may come back as (D, D) also for points: same map
                ok_shape = tuple(M.shape) in ((D, D + 1), (D, D)) and tuple(L.shape) == (D, D)
                ctx.true("matrix_shapes", ok_shape, got=[list(M.shape), list(L.shape)], **info)
                if ok_shape:
                    Mn, Ln = M.double().numpy(), L.double().numpy()
                    if Mn.shape == (D, D):
                        Mn = np.concatenate([Mn, np.zeros((D, 1))], axis=1)
                    ctx.close("matrix_action_vs_oracle", x @ Mn[:, :D].T + Mn[:, D], ref, tol0, **info)
                    ctx.close("vector_matrix_action_vs_oracle", v @ Ln.T, vref, vtol, **info)
                    # law: vectors transform by exactly the linear part of the point map
                    absprod = np.eye(D)
                    for Ls, _, _ in r1.chain(a, b, r_to):
                        absprod = np.abs(Ls) @ absprod
                    lin_tol = K * eps * absprod + 1e-30
                    ctx.close("vectors_are_linear_part", Ln, Mn[:, :D], lin_tol, **info)
            # --- module-level API
            if which != "same":
                with ctx.guard("grid_transform_points", **info):
                    y = G.grid_transform_points(xt, g1, ax[a], g_to, ax[b], decimals=None)
                    ctx.close("module_points_vs_oracle", y, ref, tol0, **info)
                    w = G.grid_transform_vectors(vt, g1, ax[a], g_to, ax[b])
                    ctx.close("module_vectors_vs_oracle", w, vref, vtol, **info)
                    M2 = hom_np(G.grid_points_transform(g1, ax[a], g_to, ax[b]), D)
                    ctx.close("module_matrix_vs_oracle", x @ M2[:, :D].T + M2[:, D], ref, tol0, **info)
                    L2 = G.grid_vectors_transform(g1, ax[a], g_to, ax[b]).double().numpy()
                    ctx.close("module_vmatrix_vs_oracle", v @ L2.T, vref, vtol, **info)
            # --- law: round trip A -> B -> A on deepali's own outputs (default rounding and none)
            for decimals in (-1, None):
                with ctx.guard("roundtrip", **info):
                    if which == "same":
                        y = g1.transform_points(xt, ax[a], ax[b], decimals=decimals)
                        z = g1.transform_points(y, ax[b], ax[a], decimals=decimals)
                        back_tol = r1.tol(np.abs(ref), b, a, None, eps=eps, k=K)
                        Lb = np.abs(r1.matrix(b, a)[:D, :D])
                    else:
                        y = g1.transform_points(xt, ax[a], ax[b], to_grid=g_to, decimals=decimals)
                        z = g_to.transform_points(y, ax[b], ax[a], to_grid=g1, decimals=decimals)
                        back_tol = r_to.tol(np.abs(ref), b, a, r1, eps=eps, k=K)
                        Lb = np.abs(r_to.matrix(b, a, r1)[:D, :D])
                    # error of the forward map is amplified by the linear part of the backward map
                    fw = (tol0 + quantum(b, decimals, dtype)) @ Lb.T
                    ctx.close("roundtrip_identity", z, x, fw + back_tol + quantum(a, decimals, dtype), decimals=decimals, **info)
    # --- all 64 triples A -> B -> C == A -> C (same grid and through the second grid)
    for a, b, c in itertools.product(AXES, AXES, AXES):
        lead = (4,)
        x = sample_in_axes(rng, r1, a, lead)
        xt = torch.tensor(x, dtype=torch.float64)
        with ctx.guard("triple", axes=[a, b, c]):
            direct = g1.transform_points(xt, ax[a], ax[c], decimals=None)
            via = g1.transform_points(g1.transform_points(xt, ax[a], ax[b], decimals=None), ax[b], ax[c], decimals=None)
            mid = r1.points(x, a, b)
            t = r1.tol(np.abs(x), a, c, eps=eps, k=K) + r1.tol(np.abs(mid), b, c, eps=eps, k=K) + r1.tol(np.abs(x), a, b, eps=eps, k=K) @ np.abs(r1.matrix(b, c)[:D, :D]).T
            ctx.close("triple_composition", via, direct, t, axes=[a, b, c])
            ctx.bucket("triples")
            direct2 = g1.transform_points(xt, ax[a], ax[c], to_grid=g2, decimals=None)
            via2 = g2.transform_points(g1.transform_points(xt, ax[a], ax[b], to_grid=g2, decimals=None), ax[b], ax[c], decimals=None)
            mid2 = r1.points(x, a, b, r2)
            t2 = r1.tol(np.abs(x), a, c, r2, eps=eps, k=K) + r2.tol(np.abs(mid2), b, c, eps=eps, k=K) + r1.tol(np.abs(x), a, b, r2, eps=eps, k=K) @ np.abs(r2.matrix(b, c)[:D, :D]).T
            ctx.close("triple_composition_two_grids", via2, direct2, t2, axes=[a, b, c])
    # --- documented anchors through the *_to_* helpers
    n = r1.n
    wtol = K * eps * (np.abs(r1.c) + np.abs(r1.A) @ (n / 2 + 1))
    itol = np.abs(np.diag(1 / r1.s) @ r1.R.T) @ wtol + 1e-6
    with ctx.guard("anchors"):
        ctx.bucket("anchors")
        zero = torch.zeros(D)
        ctx.close("anchor_index0_is_origin", g1.index_to_world(zero), r1.o, wtol)
        ctx.close("anchor_origin_accessor", g1.origin(), r1.o, wtol)
        ctx.close("anchor_center_accessor", g1.center(), r1.c, wtol)
        mid = torch.tensor((n - 1) / 2, dtype=torch.float32)
        ctx.close("anchor_mid_index_is_center", g1.index_to_world(mid), r1.c, wtol)
        ctx.close("anchor_world_origin_to_index0", g1.world_to_index(torch.tensor(r1.o, dtype=torch.float64)), np.zeros(D), itol)
        one = torch.ones(D)
        ctx.close("anchor_corners_minus1_first_sample", g1.cube_to_index(-one, align_corners=True), np.zeros(D), 1e-5 * n)
        ctx.close("anchor_corners_plus1_last_sample", g1.cube_to_index(one, align_corners=True), n - 1, 1e-5 * n)
        ctx.close("anchor_cube_minus1_half_sample_before", g1.cube_to_index(-one, align_corners=False), -0.5 * np.ones(D), 1e-5 * n)
        ctx.close("anchor_cube_plus1_half_sample_after", g1.cube_to_index(one, align_corners=False), n - 0.5, 1e-5 * n)
        multi = n > 1  # an axis with a single sample has no first / last distinction (corner normalisation undefined)
        if multi.any():
            ctx.close("anchor_index_to_cube_first", g1.index_to_cube(zero, align_corners=True).double().numpy()[multi], -np.ones(D)[multi], 1e-6)
            ctx.close("anchor_index_to_cube_last", g1.index_to_cube(torch.tensor(n - 1, dtype=torch.float32), align_corners=True).double().numpy()[multi], np.ones(D)[multi], 1e-6)
        if not multi.all():
            ctx.count("singleton_axis_grids")
        ctx.close("anchor_index_to_cube_border", g1.index_to_cube(torch.tensor(n - 0.5, dtype=torch.float32), align_corners=False), np.ones(D), 1e-6)
        ctx.close("anchor_cube0_is_center", g1.cube_to_world(zero, align_corners=False), r1.c, wtol)
        ctx.close("anchor_corners0_is_center", g1.cube_to_world(zero, align_corners=True), r1.c, wtol)
        # helpers with default align_corners follow the grid's flag
        x = sample_in_axes(rng, r1, WORLD, (6,))
        own = CORNERS if p1["align_corners"] else CUBE
        ctx.close("world_to_cube_default_flag", g1.world_to_cube(torch.tensor(x), decimals=None), r1.points(x, WORLD, own), r1.tol(np.abs(x), WORLD, own, eps=eps, k=K))
        cx = sample_in_axes(rng, r1, own, (6,))
        ctx.close("cube_to_world_default_flag", g1.cube_to_world(torch.tensor(cx)), r1.points(cx, own, WORLD), r1.tol(np.abs(cx), own, WORLD, eps=eps, k=K))
        ctx.close("index_to_cube_default_flag", g1.index_to_cube(torch.tensor(x), decimals=None), r1.points(x, GRID, own), r1.tol(np.abs(x), GRID, own, eps=eps, k=K))
        ctx.close("cube_to_index_default_flag", g1.cube_to_index(torch.tensor(cx), decimals=None), r1.points(cx, own, GRID), r1.tol(np.abs(cx), own, GRID, eps=eps, k=K))
        # Grid.transform() without arguments: own cube axes -> world; inverse_transform the opposite
        M = hom_np(g1.transform(), D)
        ctx.close("default_transform_is_cube_to_world", cx @ M[:, :D].T + M[:, D], r1.points(cx, own, WORLD), r1.tol(np.abs(cx), own, WORLD, eps=eps, k=K))
        Mi = hom_np(g1.inverse_transform(), D)
        ctx.close("inverse_transform_is_world_to_cube", x @ Mi[:, :D].T + Mi[:, D], r1.points(x, WORLD, own), r1.tol(np.abs(x), WORLD, own, eps=eps, k=K))
    # --- coords() / points(): the maps applied to the integer indices
    shape = tuple(int(k) for k in p1["size"][::-1])
    idx = np.stack(np.meshgrid(*[np.arange(k) for k in shape], indexing="ij"), axis=-1)[..., ::-1].astype(np.float64)  # (..., X, D) in (x, ...) order
    with ctx.guard("Grid.coords"):
        ctx.bucket("coords_options")
        for ac in (True, False):
            tgt = CORNERS if ac else CUBE
            refc = r1.points(idx, GRID, tgt)
            c = g1.coords(align_corners=ac)
            ctx.true("coords_shape", tuple(c.shape) == shape + (D,), got=list(c.shape), want=list(shape + (D,)))
            if tuple(c.shape) != shape + (D,):
                continue
            ctx.close("coords_vs_oracle", c, refc, 4e-7, align_corners=ac)
            ctx.true("coords_in_unit_cube", bool((c.abs() <= 1).all()), align_corners=ac)
            for flip, cl in itertools.product((False, True), (False, True)):
                c2 = g1.coords(align_corners=ac, flip=flip, channels_last=cl)
                r = refc[..., ::-1] if flip else refc
                r = r if cl else np.moveaxis(r, -1, 0)
                ctx.close("coords_flip_channels", c2, r, 4e-7, flip=flip, channels_last=cl)
            for d in range(-D, D):
                cd = g1.coords(dim=d, align_corners=ac).reshape(-1)
                nn = p1["size"][d]
                j = np.arange(nn, dtype=np.float64)
                rd = (2 * j / (nn - 1) - 1) if ac else ((2 * j + 1) / nn - 1)
                ctx.close("coords_dim", cd, rd, 4e-7, dim=d, align_corners=ac)
        ci = g1.coords(normalize=False)
        ctx.true("coords_indices_int", (not ci.is_floating_point()) and bool((ci.double().numpy() == idx).all()))
        cc = g1.coords(normalize=False, center=True)
        ctx.close("coords_centered", cc, idx - (n - 1) / 2, 1e-5 * (n + 1))
        cdef = g1.coords()
        own = CORNERS if p1["align_corners"] else CUBE
        ctx.close("coords_default_flag", cdef, r1.points(idx, GRID, own), 4e-7)
    with ctx.guard("Grid.points"):
        for a in AXES:
            pts = g1.points(ax[a])
            refp = r1.points(idx, GRID, a)
            if a == WORLD:
                t = r1.tol(np.abs(idx), GRID, WORLD, eps=eps, k=K)
            elif a == GRID:
                t = 1e-6
            else:
                t = 8e-7
            ctx.close("grid_points_vs_oracle", pts.double(), refp, t, axes=a)
            ctx.bucket(f"grid_points/{a}")
    # --- sampling an image at the grid's own normalised coordinates returns the image
    if np.prod(shape) <= 20000:
        with ctx.guard("identity_resample"):
            img = torch.tensor(rng.normal(size=(1, 2) + shape), dtype=torch.float32)
            for ac in (True, False):
                c = g1.coords(align_corners=ac).unsqueeze(0)
                out = F.grid_sample(img, c, mode="bilinear", padding_mode="border", align_corners=ac)
                ctx.close("identity_resample", out, img, 2e-5 * (1 + img.abs().max().item()) * max(shape) / 8 + 2e-5, align_corners=ac)
                ctx.bucket("identity_resample")
                outn = F.grid_sample(img, c, mode="nearest", padding_mode="border", align_corners=ac)
                ctx.true("identity_resample_nearest", bool((outn == img).all()), align_corners=ac, n_diff=int((outn != img).sum()))
            # the same through the data classes: an image sampled at a sub-lattice of its own grid, whichever flag either grid carries
            if min(shape) >= 3 and g1.size() == tuple(int(round(float(k))) for k in g1._size):
                from deepali.data import Image

                sl = (slice(None),) + (slice(1, -1),) * D
                for a_, b_ in itertools.product((True, False), (True, False)):
                    sub = g1.align_corners(a_).crop(num=1).align_corners(b_)
                    got = Image(img[0], g1.align_corners(a_)).sample(sub)
                    ctx.true("image_sample_sublattice_grid", got.grid() == sub and got.grid().align_corners() == b_, image_flag=a_, target_flag=b_)
                    # position error of the sub-lattice's cube coordinates mapped (through world) to indices of the image grid,
                    # times the steepest slope linear interpolation can have
                    pos = gen.ref_of_grid(sub).tol(np.ones(D), CORNERS if b_ else CUBE, GRID, gen.ref_of_grid(g1.align_corners(a_)), eps=eps, k=K)
                    amax = img.abs().max().item()
                    tol_s = 2 * amax * float(np.sum(pos)) + 4e-5 * (1 + amax) * max(shape) / 8 + 4e-5
                    ctx.close("image_sample_sublattice", got.tensor(), img[0][sl], tol_s, image_flag=a_, target_flag=b_)
                    ctx.bucket(f"image_sample_sublattice/{a_}->{b_}")
    # --- Cube: cube <-> world maps of the domain object
    with ctx.guard("Cube"):
        from deepali.core.cube import Cube

        ctx.bucket("cube")
        for ac in (True, False):
            own = CORNERS if ac else CUBE
            cube = Cube.from_grid(g1, align_corners=ac)
            cx = sample_in_axes(rng, r1, own, (7,))
            wx = r1.points(cx, own, WORLD)
            t_w = r1.tol(np.abs(cx), own, WORLD, eps=eps, k=K)
            ctx.close("cube_to_world_vs_oracle", cube.cube_to_world(torch.tensor(cx)), wx, t_w, align_corners=ac)
            t_c = r1.tol(np.abs(wx), WORLD, own, eps=eps, k=K)
            ctx.close("world_to_cube_vs_oracle", cube.world_to_cube(torch.tensor(wx)), cx, t_c + t_w @ np.abs(r1.matrix(WORLD, own)[:D, :D]).T, align_corners=ac)
            v = gen.f32(rng.normal(size=(5, D)))
            ctx.close("cube_vectors_to_world", cube.transform_vectors(torch.tensor(v), Axes.CUBE, Axes.WORLD), r1.vectors(v, own, WORLD), r1.tol(np.abs(v), own, WORLD, eps=eps, k=K, vectors=True), align_corners=ac)
            ctx.close("cube_vectors_from_world", cube.transform_vectors(torch.tensor(v), Axes.WORLD, Axes.CUBE), r1.vectors(v, WORLD, own), r1.tol(np.abs(v), WORLD, own, eps=eps, k=K, vectors=True), align_corners=ac)
            # cube of the second grid
            own2 = CORNERS if p2["align_corners"] else CUBE
            cube2 = g2.cube()
            got = cube.transform_points(torch.tensor(cx), Axes.CUBE, Axes.CUBE, to_cube=cube2)
            ctx.close("cube_to_cube_vs_oracle", got, r1.points(cx, own, own2, r2), r1.tol(np.abs(cx), own, own2, r2, eps=eps, k=K), align_corners=ac)
            M = hom_np(cube.transform(), D)
            ctx.close("cube_default_transform", cx @ M[:, :D].T + M[:, D], wx, t_w, align_corners=ac)
        # module-level spellings of the same maps, and the serialised form
        from deepali.core import cube as CU

        with ctx.guard("cube helpers", key="exc/cube_helpers"):
            ctx.bucket("cube/helpers")
            c1, c2 = g1.cube(), g2.cube()
            own1 = CORNERS if p1["align_corners"] else CUBE
            own2 = CORNERS if p2["align_corners"] else CUBE
            cx = sample_in_axes(rng, r1, own1, (6,))
            wx = r1.points(cx, own1, WORLD)
            t_w = r1.tol(np.abs(cx), own1, WORLD, eps=eps, k=K)
            want12 = r1.points(cx, own1, own2, r2)
            t12 = r1.tol(np.abs(cx), own1, own2, r2, eps=eps, k=K)
            ctx.close("cube_transform_points_fn", CU.cube_transform_points(torch.tensor(cx), c1, Axes.CUBE, c2, Axes.CUBE), want12, t12, key="cube/helpers")
            M = hom_np(CU.cube_points_transform(c1, Axes.CUBE, c2, Axes.CUBE), D)
            ctx.close("cube_points_transform_fn", cx @ M[:, :D].T + M[:, D], want12, t12, key="cube/helpers")
            v = gen.f32(rng.normal(size=(5, D)))
            wantv = r1.vectors(v, own1, own2, r2)
            tv = r1.tol(np.abs(v), own1, own2, r2, eps=eps, k=K, vectors=True)
            ctx.close("cube_transform_vectors_fn", CU.cube_transform_vectors(torch.tensor(v), c1, Axes.CUBE, c2, Axes.CUBE), wantv, tv, key="cube/helpers")
            L_ = CU.cube_vectors_transform(c1, Axes.CUBE, c2, Axes.CUBE).double().numpy()
            ctx.close("cube_vectors_transform_fn", v @ L_[:D, :D].T, wantv, tv, key="cube/helpers")
            # world coordinates into the cube of the *other* domain object (and its vectors)
            t_w2 = r2.tol(np.abs(wx), WORLD, own2, eps=eps, k=K)
            ctx.close("world_to_other_cube_points", c1.transform_points(torch.tensor(wx), Axes.WORLD, Axes.CUBE, to_cube=c2), r2.points(wx, WORLD, own2), t_w2, key="cube/helpers/world_to_other_cube")
            ctx.close("world_to_other_cube_vectors", c1.transform_vectors(torch.tensor(v), Axes.WORLD, Axes.CUBE, to_cube=c2), r2.vectors(v, WORLD, own2), r2.tol(np.abs(v), WORLD, own2, eps=eps, k=K, vectors=True), key="cube/helpers/world_to_other_cube")
            Mi = hom_np(c1.inverse_transform(), D)
            t_c = r1.tol(np.abs(wx), WORLD, own1, eps=eps, k=K)
            ctx.close("cube_inverse_transform_maps_world_to_cube", wx @ Mi[:, :D].T + Mi[:, D], cx, t_c + t_w @ np.abs(r1.matrix(WORLD, own1)[:D, :D]).T, key="cube/helpers")
            Li = c1.inverse_transform(vectors=True).double().numpy()
            ctx.close("cube_inverse_transform_vectors_is_linear_part", Li[:D, :D], Mi[:, :D], 1e-6 * (1 + np.abs(Mi).max()), key="cube/helpers")
            back = type(c1).from_numpy(c1.numpy())
            ctx.true("cube_numpy_roundtrip", back == c1, key="cube/helpers", got=repr(back), want=repr(c1))
            back2 = type(c1).from_seq(c1.numpy().tolist())
            ctx.true("cube_seq_roundtrip", back2 == c1, key="cube/helpers")
            # the same attributes with the corner (origin) in place of the centre
            seq_o = list(c1.numpy())
            seq_o[D : 2 * D] = c1.origin().tolist()
            back3 = type(c1).from_seq(seq_o, origin=True)
            ctx.close("cube_from_seq_origin_route_center", back3.center(), c1.center().double().numpy(), 1e-5 * (1 + float(c1.center().abs().max()) + float(c1.extent().abs().max())), key="cube/helpers")
        # domain object agrees with grid.cube()/domain()
        ctx.true("grid_cube_eq_from_grid", g1.cube() == Cube.from_grid(g1) and g1.domain() == g1.cube())
