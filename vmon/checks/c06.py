r"""C06 — a spatial transform means one world-space map, however it is evaluated."""

from __future__ import annotations

import itertools

import numpy as np

from .. import gen
from .. import xforms as X
from ..oracle import linalg as L
from ..oracle.coords import CORNERS, CUBE, GRID, WORLD
from ..oracle.ramp import Ramp, Validity, world_positions

PROPERTY = "C06"
RULE = (
    "Cases cycle through every transform class (translation, Euler/quaternion rotation, iso/anisotropic scaling, "
    "shearing, homogeneous, rigid / rigid-quaternion / similarity / affine / full-affine composites, DDF, SVF, FFD, "
    "SVFFD) x parameter kind (optimisable parameter, fixed tensor, callable) x groups in {1, N} on random oriented "
    "grids; the point map t(x) is the reference view and every other view must describe the same map: fresh "
    "instances are the identity, disp()/flow() on the own grid, on a same-domain grid of other size and on a "
    "different-domain grid, tensor()/matrix() applied by a numpy oracle, points(..., any grid/axes incl. WORLD), "
    "PointSetTransformer, Sequential / MultiLevel composites, GenericSpatialTransform over its config space, and "
    "ImageTransformer on world-linear ramp images for transform/target/source grids that are equal, same-domain or "
    "different-domain. Non-trivial: rotated/anisotropic grid and non-identity parameters; distinct = hash of class, "
    "kind, groups, grid and parameter values."
)
ASSUMPTIONS = [
    "the reference view is the library's own point map t(x) in cube coordinates, re-expressed by the float64 coordinate oracle",
    "linear interpolation of a world-linear ramp is exact, so the warped image is known exactly: ramp(T(w))",
    "tolerance 2e-4 in cube units / 3e-4 of the ramp range (float32 end to end)",
]
ANCHORS = [
    ("deepali.spatial.base", "SpatialTransform.forward"),
    ("deepali.spatial.base", "SpatialTransform.disp"),
    ("deepali.spatial.base", "SpatialTransform.flow"),
    ("deepali.spatial.base", "SpatialTransform.points"),
    ("deepali.spatial.base", "LinearTransform.matrix"),
    ("deepali.spatial.composite", "SequentialTransform.forward"),
    ("deepali.spatial.composite", "SequentialTransform.tensor"),
    ("deepali.spatial.composite", "MultiLevelTransform.forward"),
    ("deepali.spatial.composite", "MultiLevelTransform.tensor"),
    ("deepali.spatial.composite", "CompositeTransform.disp"),
    ("deepali.spatial.transformer", "ImageTransformer.__init__"),
    ("deepali.spatial.transformer", "ImageTransformer.forward"),
    ("deepali.spatial.transformer", "PointSetTransformer.forward"),
    ("deepali.spatial.generic", "GenericSpatialTransform.__init__"),
    ("deepali.spatial.generic", "GenericSpatialTransform._data"),
    ("deepali.core.pointset", "transform_points"),
    ("deepali.core.pointset", "transform_grid"),
    ("deepali.core.flow", "warp_grid"),
    ("deepali.core.flow", "warp_points"),
    ("deepali.core.flow", "affine_flow"),
]
N_CASES = {"quick": 16 * 12, "thorough": 16 * 1000}
BUDGET = {"quick": 600, "thorough": 5400}
TOL = 2e-4


def plan(tier, seed):
    return [["case", i] for i in range(N_CASES[tier])] + [["generic", k] for k in range(8 if tier == "quick" else 64)]


def mandatory(tier):
    out = [f"class/{n}" for n in X.ALL] + [f"kind/{k}" for k in X.KINDS] + ["groups/1", "groups/N"]
    out += ["fresh_identity", "non_identity", "forward/grid_flag/finer_grid/nonzero_boundary", "disp/own", "disp/own_other_flag", "disp/resized", "disp/other_domain", "transform_grid/fractional_internal_size", "image/padding=constant", "points/world", "pointset_transformer", "sequential", "multilevel", "generic", "image/equal", "image/same_domain", "image/same_cube_other_flag", "image/other_domain", "image/other_domain_default_source", "after_data_", "matrix"]
    return out


def cube_axes(grid):
    return CORNERS if grid.align_corners() else CUBE


def world_map(t, gref, W, groups):
    r"""World point map of transform ``t`` (library point map wrapped in the coordinate oracle). W (..., D) -> (G, ..., D)."""
    import torch

    ax = cube_axes(t.grid())
    x = gref.points(W, WORLD, ax)
    xt = torch.tensor(x.reshape(1, -1, x.shape[-1]), dtype=torch.float32)
    with torch.no_grad():
        y = t(xt).double().numpy()
    y = y.reshape((y.shape[0],) + W.shape)
    return gref.points(y, ax, WORLD), x


def run_item(ctx, item):
    if item[0] == "generic":
        return generic(ctx, item[1])
    return case(ctx, item[1])


def rand_grid(rng, D, ac=None, max_size=None):
    p = gen.rand_grid_params(rng, D, max_size=max_size or (18 if D == 2 else 9), min_size=6, big_offset=False, align_corners=ac)
    return p, gen.make_grid(p)


def other_domain_grid(rng, gref, D, ac=None):
    p = gen.rand_grid_params(rng, D, max_size=14 if D == 2 else 8, min_size=5, big_offset=False, route="center", align_corners=ac)
    ext = gref.s * gref.n
    p["center"] = gen.f32(gref.c + gref.R @ (rng.normal(size=D) * 0.08 * ext)).tolist()
    p["spacing"] = gen.f32(ext * rng.uniform(0.45, 0.75, size=D) / np.asarray(p["size"], dtype=float)).tolist()
    return p, gen.make_grid(p)


def case(ctx, i):
    import torch
    from deepali import spatial as S
    from deepali.core.grid import Axes
    from deepali.data.flow import FlowFields

    rng = ctx.rng()
    D = 3 if (i // 16) % 2 else 2
    names = X.available(D)
    name = names[i % len(names)] if D == 2 else X.ALL[i % 16]
    kind = X.KINDS[(i // 16) % 3]
    G = 1 if (i // 48) % 2 == 0 else 2
    need_ac = name in ("FreeFormDeformation", "StationaryVelocityFreeFormDeformation")
    gp, g = rand_grid(rng, D, ac=True if need_ac else None)
    if i % 4 == 1:
        # the transform lives on a derived grid (pyramid level): odd sizes leave a fractional internal size (13 -> 6.5,
        # reported 7), and every map of the transform has to use the reported one
        gp = gen.rand_grid_params(rng, D, max_size=36 if D == 2 else 18, min_size=12, big_offset=False, align_corners=True if need_ac else None)
        g = gen.make_grid(gp).downsample(1)
        gp = dict(gp, derived="downsample", size=[int(k) for k in g.size()])
        ctx.bucket("transform_grid/derived")
        if bool((g._size != g._size.round()).any()):
            ctx.bucket("transform_grid/fractional_internal_size")
    gref = gen.ref_of_grid(g)
    ax_t = cube_axes(g)
    ctx.bucket(f"class/{name}")
    ctx.bucket(f"kind/{kind}")
    ctx.bucket("groups/1" if G == 1 else "groups/N")
    info = dict(cls=name, kind=kind, groups=G, D=D)
    # ---------------- fresh instance is the identity
    with ctx.guard("fresh", key=f"exc/fresh/{name}", **info):
        ctx.bucket("fresh_identity")
        cls = getattr(S, name)
        fresh = cls(g, groups=G)
        x0 = torch.tensor(rng.uniform(-0.9, 0.9, size=(1, 9, D)), dtype=torch.float32)
        y0 = fresh(x0).detach()
        ctx.close("fresh_transform_is_identity", y0, np.broadcast_to(x0.numpy(), y0.shape), 1e-6, key=f"fresh/{name}", **info)
        ctx.close("fresh_disp_is_zero", fresh.disp().detach(), 0 * fresh.disp().detach().numpy(), 1e-6, key=f"fresh/{name}", **info)
        fb = cls(g, groups=G, **({"params": False} if name in X.LINEAR + X.NONRIGID else {k: False for k in X.CHILDREN[name]}))
        ctx.close("fresh_fixed_tensor_transform_is_identity", fb(x0).detach(), np.broadcast_to(x0.numpy(), y0.shape), 1e-6, key=f"fresh/{name}", **info)
    with ctx.guard("make", key=f"exc/make/{name}/{kind}", **info):
        t, tinfo = X.make(rng, name, g, groups=G, kind=kind)
    if gen.grid_nontrivial(gp):
        ctx.nontriv(info, gp, {k: v.tolist() if v.size < 40 else float(np.abs(v).sum()) for k, v in tinfo["values"].items()})
    if i < 3:
        ctx.sample({"case": info, "grid": gp})
    x = torch.tensor(rng.uniform(-0.85, 0.85, size=(1, 11, D)), dtype=torch.float32)
    with torch.no_grad():
        y = t(x).double().numpy()  # (G, M, D) reference view
    ctx.true("point_map_shape", y.shape == (G, 11, D), key="forward/shape", got=list(y.shape), **info)
    # generator sanity: random parameters are almost never the identity (a scale factor drawn next to 1 can be); counted,
    # and a run in which no case moved anything would be inconclusive (mandatory bucket)
    if float(np.abs(y - x.numpy()).max()) > 1e-4:
        ctx.bucket("non_identity")
    else:
        ctx.count("near_identity_cases")

    def grid_map(h):
        r"""Expected displacement (G, D, ..., X) in cube units of grid ``h`` from the point map."""
        href = gen.ref_of_grid(h)
        ax_h = cube_axes(h)
        xh = h.coords().double().numpy()
        W = href.points(xh, ax_h, WORLD)
        Wy, xt_ = world_map(t, gref, W, G)
        yh = href.points(Wy, WORLD, ax_h)
        u = np.moveaxis(yh - xh, -1, 1)
        inside = (np.abs(xt_) <= 0.97).all(axis=-1)
        return u, inside

    # ---------------- disp() / flow() on own grid
    with ctx.guard("disp(own)", **info):
        ctx.bucket("disp/own")
        u, _ = grid_map(g)
        d = t.disp()
        ctx.close("disp_own_grid_equals_point_map", d.detach(), u, TOL, key=f"disp/own/{'linear' if t.linear else 'nonrigid'}", **info)
        fl = t.flow()
        ctx.true("flow_type_grid_axes", isinstance(fl, FlowFields) and fl.grid() == g and fl.axes() is Axes.from_grid(g), key="flow/meta", **info)
        ctx.close("flow_equals_disp", fl.tensor().detach(), d.detach(), 0.0, key="flow/values", **info)
        with torch.no_grad():
            yg = t(g.coords().unsqueeze(0), grid=True)
        ctx.close("forward_grid_flag_equals_point_map", np.moveaxis(yg.double().numpy() - g.coords().double().numpy(), -1, 1), u, TOL, key="forward/grid_flag", **info)
        # grid=True on a finer grid of the same domain (outermost samples lie beyond the outermost samples of the
        # transform grid when align_corners=False): still the same map as point evaluation
        gf = g.resize(tuple(2 * int(k) + 1 for k in g.size()))
        xf = gf.coords(align_corners=g.align_corners()).unsqueeze(0)
        # the generated fields vanish on the boundary: shift them so that extrapolation beyond the outermost samples matters
        shifted = []
        if not t.linear and kind != "callable":
            with torch.no_grad():
                for prm in list(t.parameters()) + [b for n_, b in t.named_buffers() if n_ == "params"]:
                    if prm.ndim >= 3 and prm.is_floating_point():
                        off = 0.3 * 2.0 / float(min(g.size()))
                        prm.add_(off)
                        shifted.append((prm, off))
            t.update()
            if shifted:
                ctx.bucket("forward/grid_flag/finer_grid/nonzero_boundary")
        try:
            with torch.no_grad():
                yf1 = t(xf, grid=True).double().numpy()
                yf0 = t(xf, grid=False).double().numpy()
        finally:
            with torch.no_grad():
                for prm, off in shifted:
                    prm.sub_(off)
            t.update()
        ctx.bucket("forward/grid_flag/finer_grid")
        ctx.close("forward_grid_flag_on_finer_grid_equals_point_evaluation", yf1, yf0, 2 * TOL, key=f"forward/grid_flag_finer/{'linear' if t.linear else 'nonrigid'}", align_corners=g.align_corners(), **info)
    # ---------------- disp() on same-domain grid of another size
    with ctx.guard("disp(resized)", **info):
        ctx.bucket("disp/resized")
        size2 = [int(rng.integers(max(4, k // 2), 2 * k)) for k in g.size()]
        g2 = g.resize(tuple(size2))
        u2, _ = grid_map(g2)
        ctx.close("disp_resized_grid_equals_point_map", t.disp(g2).detach(), u2, TOL, key=f"disp/resized/{'linear' if t.linear else 'nonrigid'}", size=size2, **info)
    # ---------------- disp() on the own grid carrying the other flag: same samples, other vector normalisation
    with ctx.guard("disp(own grid, other flag)", **info):
        ctx.bucket("disp/own_other_flag")
        gof = g.align_corners(not g.align_corners())
        uof, _ = grid_map(gof)
        dof = t.disp(gof).detach()
        ctx.close("disp_own_grid_other_flag_equals_point_map", dof, uof, TOL, key=f"disp/own_other_flag/{'linear' if t.linear else 'nonrigid'}", **info)
        fof = t.flow(gof)
        ctx.true("flow_own_grid_other_flag_meta", fof.grid() == gof and fof.grid().align_corners() == gof.align_corners() and fof.axes() is Axes.from_grid(gof), key="flow/meta", **info)
    # ---------------- disp() on a grid with another domain
    with ctx.guard("disp(other_domain)", **info):
        ctx.bucket("disp/other_domain")
        hp, h = other_domain_grid(rng, gref, D)
        uh, inside = grid_map(h)
        dh = t.disp(h).detach().double().numpy()
        ok = ctx.true("disp_other_grid_shape", dh.shape == uh.shape, key="disp/other/shape", got=list(dh.shape), want=list(uh.shape), **info)
        if ok:
            m = np.broadcast_to(inside[None, None], uh.shape) if not t.linear else np.ones(uh.shape, dtype=bool)
            if m.any():
                ctx.close("disp_other_domain_grid_equals_point_map", dh[m], uh[m], 3 * TOL, key=f"disp/other_domain/{'linear' if t.linear else 'nonrigid'}", other_grid=hp, **info)
            fh = t.flow(h)
            ctx.true("flow_other_grid_meta", fh.grid() == h and fh.axes() is Axes.from_grid(h), key="flow/meta", **info)
    # ---------------- tensor() / matrix() of linear transforms
    if t.linear:
        with ctx.guard("matrix", **info):
            ctx.bucket("matrix")
            T = L.full(t.tensor().detach().double().numpy(), D)
            ya = np.einsum("gij,mj->gmi", T[:, :D, :D], x[0].double().numpy()) + T[:, None, :D, D]
            ctx.close("tensor_action_equals_point_map", ya, y, TOL, key=f"matrix/{name}", **info)
            if hasattr(t, "matrix"):  # LinearTransform API (the composites are SequentialTransform)
                M = L.full(t.matrix().detach().double().numpy(), D)
                ctx.close("matrix_equals_tensor", M, T, 1e-7, key=f"matrix/{name}", **info)
    # ---------------- points(): any grid / axes
    with ctx.guard("points", **info):
        ctx.bucket("points/world")
        W = gref.points(x[0].double().numpy(), ax_t, WORLD)
        Wy, _ = world_map(t, gref, W, G)
        wt = torch.tensor(W[None], dtype=torch.float64)
        got = t.points(wt, axes=Axes.WORLD)
        wtol = TOL * float(np.linalg.norm(gref.s * gref.n))
        ctx.close("points_world_axes_equals_point_map", got.detach(), Wy, wtol, key="points/world", **info)
        hp, h = other_domain_grid(rng, gref, D)
        hp2, h2 = other_domain_grid(rng, gref, D)
        href, h2ref = gen.ref_of_grid(h), gen.ref_of_grid(h2)
        a_in, a_out = str(rng.choice([GRID, CUBE, CORNERS, WORLD])), str(rng.choice([GRID, CUBE, CORNERS, WORLD]))
        pin = href.points(W, WORLD, a_in)
        got2 = t.points(torch.tensor(pin[None], dtype=torch.float64), grid=h, axes=Axes(a_in), to_grid=h2, to_axes=Axes(a_out))
        want2 = h2ref.points(Wy, WORLD, a_out)
        scale2 = TOL * (float(np.abs(want2).max()) + 1.0) * 2
        ctx.close("points_any_grid_axes_equals_point_map", got2.detach(), want2, scale2, key="points/grid_axes", axes=a_in, to_axes=a_out, **info)
        ctx.bucket("pointset_transformer")
        pst = S.PointSetTransformer(t, grid=h, axes=Axes(a_in), to_grid=h2, to_axes=Axes(a_out))
        got3 = pst(torch.tensor(pin[None], dtype=torch.float64))
        ctx.close("pointset_transformer_equals_point_map", got3.detach(), want2, scale2, key="pointset_transformer", axes=a_in, to_axes=a_out, **info)
        pst0 = S.PointSetTransformer(t)
        ctx.close("pointset_transformer_default_is_forward", pst0(x).detach(), y, TOL, key="pointset_transformer", **info)
        # defaults: output grid = input grid, output axes = input axes (also for points()): every option left out in turn
        same_frame = href.points(Wy, WORLD, a_in)
        stol = TOL * (float(np.abs(same_frame).max()) + 1.0) * 2
        pin_t = torch.tensor(pin[None], dtype=torch.float64)
        ctx.close("pointset_transformer_to_grid_defaults_to_input_grid", S.PointSetTransformer(t, grid=h, axes=Axes(a_in))(pin_t).detach(), same_frame, stol, key="pointset_transformer/defaults", axes=a_in, **info)
        ctx.close("points_to_grid_defaults_to_input_grid", t.points(pin_t, grid=h, axes=Axes(a_in)).detach(), same_frame, stol, key="points/defaults", axes=a_in, **info)
        want4 = href.points(Wy, WORLD, a_out)
        ctx.close("pointset_transformer_to_axes_only", S.PointSetTransformer(t, grid=h, axes=Axes(a_in), to_axes=Axes(a_out))(pin_t).detach(), want4, TOL * (float(np.abs(want4).max()) + 1.0) * 2, key="pointset_transformer/defaults", axes=a_in, to_axes=a_out, **info)
    # ---------------- composites
    with ctx.guard("sequential", **info):
        ctx.bucket("sequential")
        others = [n for n in X.available(D) if n not in ("FreeFormDeformation", "StationaryVelocityFreeFormDeformation") or g.align_corners()]
        n2 = str(rng.choice(others))
        t2, _ = X.make(rng, n2, g, groups=G, kind="buffer")
        seq = S.SequentialTransform(t, t2)
        with torch.no_grad():
            ys = seq(x).double().numpy()
            y12 = t2.forward(t(x)).double().numpy()
        ctx.close("sequential_applies_members_in_order", ys, y12, TOL, key="sequential/forward", second=n2, **info)
        xg = g.coords().unsqueeze(0)
        with torch.no_grad():
            ug = np.moveaxis((t2.forward(t(xg)) - xg).double().numpy(), -1, 1)
        ctx.close("sequential_disp_equals_point_map", seq.disp().detach(), ug, TOL, key="sequential/disp", second=n2, **info)
        with torch.no_grad():  # grid=True: "points are the undeformed grid points" holds for the first member only
            ugf = np.moveaxis((seq(xg, grid=True) - xg).double().numpy(), -1, 1)
        ctx.close("sequential_grid_flag_equals_point_map", ugf, ug, TOL, key="sequential/grid_flag", second=n2, **info)
        if seq.linear:
            M = L.full(seq.tensor().detach().double().numpy(), D)
            ya = np.einsum("gij,mj->gmi", M[:, :D, :D], x[0].double().numpy()) + M[:, None, :D, D]
            ctx.close("sequential_tensor_equals_point_map", ya, y12, TOL, key="sequential/tensor", second=n2, **info)
    with ctx.guard("multilevel", key=f"exc/multilevel/{'linear' if t.linear else 'nonrigid'}", **info):
        ctx.bucket("multilevel")
        n2 = name if rng.integers(0, 2) else str(rng.choice([n for n in X.available(D) if (n in X.LINEAR + X.LINEAR_COMPOSITE) == t.linear and (n not in ("FreeFormDeformation", "StationaryVelocityFreeFormDeformation") or g.align_corners())]))
        t2, _ = X.make(rng, n2, g, groups=G, kind="buffer")
        ml = S.MultiLevelTransform(t, t2)
        with torch.no_grad():
            ym = ml(x).double().numpy()
            want = (x + (t(x) - x) + (t2(x) - x)).double().numpy()
        ctx.close("multilevel_adds_displacements", ym, want, TOL, key=f"multilevel/forward/{'linear' if ml.linear else 'nonrigid'}", second=n2, **info)
        xg = g.coords().unsqueeze(0)
        with torch.no_grad():
            ug = np.moveaxis(((t(xg) - xg) + (t2(xg) - xg)).double().numpy(), -1, 1)
        ctx.close("multilevel_disp_adds_displacements", ml.disp().detach(), ug, TOL, key=f"multilevel/disp/{'linear' if ml.linear else 'nonrigid'}", second=n2, **info)
        t3, _ = X.make(rng, n2, g, groups=G, kind="buffer")
        ml3 = S.MultiLevelTransform(t, t2, t3)
        with torch.no_grad():
            ym3 = ml3(x).double().numpy()
            want3 = (x + (t(x) - x) + (t2(x) - x) + (t3(x) - x)).double().numpy()
            ug3 = np.moveaxis(((t(xg) - xg) + (t2(xg) - xg) + (t3(xg) - xg)).double().numpy(), -1, 1)
        ctx.close("multilevel_of_three_adds_displacements", ym3, want3, TOL, key=f"multilevel/forward/{'linear' if ml3.linear else 'nonrigid'}", second=n2, members=3, **info)
        ctx.close("multilevel_of_three_disp_adds_displacements", ml3.disp().detach(), ug3, TOL, key=f"multilevel/disp/{'linear' if ml3.linear else 'nonrigid'}", second=n2, members=3, **info)
        if ml3.linear:
            M3 = L.full(ml3.tensor().detach().double().numpy(), D)
            ya3 = np.einsum("gij,mj->gmi", M3[:, :D, :D], x[0].double().numpy()) + M3[:, None, :D, D]
            ctx.close("multilevel_of_three_tensor_equals_point_map", ya3, want3, TOL, key="multilevel/tensor", members=3, **info)
        with torch.no_grad():
            ugf = np.moveaxis((ml(xg, grid=True) - xg).double().numpy(), -1, 1)
        ctx.close("multilevel_grid_flag_adds_displacements", ugf, ug, TOL, key=f"multilevel/grid_flag/{'linear' if ml.linear else 'nonrigid'}", second=n2, **info)
    # ---------------- image warping
    for rel in ("equal", "same_domain", "same_cube_other_flag", "other_domain", "other_domain_default_source"):
        with ctx.guard("ImageTransformer", key=f"exc/image/{rel}", relation=rel, **info):
            ctx.bucket(f"image/{rel}")
            if rel == "equal":
                target, source = g, g
            elif rel == "other_domain_default_source":
                # source omitted: documented default is the target grid (the image lives on the output grid)
                _, target = other_domain_grid(rng, gref, D)
                source = target
            elif rel == "same_cube_other_flag":
                # target and source cover the cube of the transform grid but carry the other align_corners flag: their
                # samples lie elsewhere (corners on the cube boundary vs half a sample inside)
                target = g.cube().grid(size=tuple(int(rng.integers(max(4, k // 2), 2 * k)) for k in g.size()), align_corners=not g.align_corners())
                source = g.cube().grid(size=tuple(int(rng.integers(max(5, k // 2 + 2), 2 * k)) for k in g.size()), align_corners=not g.align_corners())
            elif rel == "same_domain":
                target = g.resize(tuple(int(rng.integers(max(4, k // 2), 2 * k)) for k in g.size()))
                source = g.resize(tuple(int(rng.integers(max(5, k // 2 + 2), 2 * k)) for k in g.size()))
            else:
                _, target = other_domain_grid(rng, gref, D)
                sp = gen.rand_grid_params(rng, D, max_size=16 if D == 2 else 9, min_size=6, big_offset=False, route="center")
                ext = gref.s * gref.n
                sp["center"] = gen.f32(gref.c + rng.normal(size=D) * 0.05 * ext).tolist()
                sp["spacing"] = gen.f32(ext * rng.uniform(1.0, 1.4, size=D) / np.asarray(sp["size"], dtype=float)).tolist()
                source = gen.make_grid(sp)
            sref, tref = gen.ref_of_grid(source), gen.ref_of_grid(target)
            ramp = Ramp.random(rng, 2, sref)
            data = torch.tensor(ramp.on_grid(sref)[None], dtype=torch.float32).expand(G, -1, *source.shape).contiguous()
            pad = "zeros" if rng.integers(0, 2) else float(rng.choice([0.75, -2.0]))  # constant padding value: outside the compared region
            if rel == "other_domain_default_source":
                warp = S.ImageTransformer(t, target=target, padding=pad)
            else:
                warp = S.ImageTransformer(t, target=target, source=source, padding=pad)
            data0 = data.clone()
            out = warp(data)
            # the transformer is a reusable module: the same input gives the same output again, and the input is intact
            out_again = warp(data)
            ctx.true("image_transformer_leaves_input_unchanged", bool(torch.equal(data, data0)), key=f"image/input_mutated", relation=rel, padding=str(pad), **info)
            ctx.close("image_transformer_second_call_equals_first", out_again.detach(), out.detach(), 0.0, key=f"image/second_call", relation=rel, padding=str(pad), **info)
            ctx.bucket("image/padding=" + ("zeros" if pad == "zeros" else "constant"))
            ok = ctx.true("warped_shape", tuple(out.shape) == (G, 2) + tuple(target.shape), key="image/shape", got=list(out.shape), relation=rel, **info)
            if not ok:
                continue
            W = world_positions(tref)
            Wy, xt_ = world_map(t, gref, W, G)
            for n_ in range(G):
                mask = Validity.of(sref).mask(Wy[n_])
                if not t.linear:
                    mask &= (np.abs(xt_) <= 0.97).all(axis=-1)
                if not mask.any():
                    ctx.count("image_empty_mask")
                    continue
                want = ramp(Wy[n_])
                got = out[n_].detach().double().numpy()
                m = np.broadcast_to(mask, want.shape)
                ctx.close("warped_ramp_is_ramp_at_T_of_x", got[m], want[m], 3e-4, key=f"image/{rel}/{'linear' if t.linear else 'nonrigid'}", relation=rel, step=ramp.step(sref), n_compared=int(mask.sum()), **info)
    # ---------------- the views still agree after the parameters were replaced (same shape), without update() / call in between
    if kind != "callable" and hasattr(t, "data_") and isinstance(getattr(t, "params", None), torch.Tensor):
        with ctx.guard("views after data_()", key=f"exc/after_data_/{name}", **info):
            ctx.bucket("after_data_")
            new = t.params.detach().clone() * float(rng.uniform(0.4, 0.8))
            t.data_(new)
            d_first = t.disp().detach().double().numpy()  # read before anything calls the transform
            w_first = t.points(torch.tensor(gref.points(x[0].double().numpy(), ax_t, WORLD)[None], dtype=torch.float64), axes=Axes.WORLD).detach().double().numpy()
            u_new, _ = grid_map(g)
            ctx.close("disp_after_data_equals_point_map", d_first, u_new, TOL, key=f"after_data_/disp/{'linear' if t.linear else 'nonrigid'}", **info)
            Wn = gref.points(x[0].double().numpy(), ax_t, WORLD)
            Wyn, _ = world_map(t, gref, Wn, G)
            ctx.close("points_after_data_equals_point_map", w_first, Wyn, TOL * float(np.linalg.norm(gref.s * gref.n)), key="after_data_/points", **info)


# ------------------------------------------------------------------------------------------------
GENERIC_CONFIGS = [
    ("Affine", "TRS"), ("Affine", "T o R o S"), ("Affine", "A"), ("Affine", "TKRS"), ("Affine", "RT"), ("Affine", "QT"),
    ("Affine o SVF", "TRS"), ("SVF o Affine", "TR"), ("SVF", "TRS"), ("DDF", "T"), ("FFD", "T"), ("SVFFD", "T"),
    ("Affine o FFD", "TS"), ("DDF o Affine", "A"),
]
LETTER = {"A": ("affine", "HomogeneousTransform"), "K": ("shearing", "Shearing"), "T": ("translation", "Translation"), "R": ("rotation", "EulerRotation"), "S": ("scaling", "AnisotropicScaling"), "Q": ("quaternion", "QuaternionRotation")}


def generic(ctx, k):
    import torch
    from deepali import spatial as S

    rng = ctx.rng()
    ctx.bucket("generic")
    for ci, (model, affine_model) in enumerate(GENERIC_CONFIGS):
        D = 3 if ("Q" in affine_model or (k + ci) % 2) else 2
        gp, g = rand_grid(rng, D, ac=True)
        info = dict(transform=model, affine_model=affine_model, D=D)
        cfg = S.TransformConfig(transform=model, affine_model=affine_model, rotation_model="ZXZ", control_point_spacing=2 if "FFD" in model else 1)
        with ctx.guard("GenericSpatialTransform", key=f"exc/generic/construct", **info):
            t = S.GenericSpatialTransform(g, params=True, config=cfg)
            x = torch.tensor(rng.uniform(-0.85, 0.85, size=(1, 9, D)), dtype=torch.float32)
            ctx.close("fresh_generic_is_identity", t(x).detach(), x, 1e-6, key="generic/fresh", **info)
            # expected order of application derived from the configuration strings
            comps = model.split(" o ")
            letters = [c for c in affine_model.replace(" o ", "")]
            order = []
            for comp in reversed(comps):  # right-most component is applied first
                if comp == "Affine":
                    order += [LETTER[c][0] for c in reversed(letters)]
                else:
                    order.append("nonrigid")
            names = [n for n, _ in t.named_transforms()]
            ctx.true("generic_order_of_composition", names == order, key="generic/order", got=names, want=order, **info)
            # set random parameters on the children and compare with an explicit sequence built from the same values
            members = []
            for n_, child in t.named_transforms():
                cname = type(child).__name__
                if n_ == "nonrigid":
                    vals = X.nonrigid_values(rng, cname, child, 1)
                    child.data_(torch.tensor(vals, dtype=torch.float32))
                else:
                    vals = X.natural_values(rng, cname, D, 1, g)
                    child.data_(torch.tensor(X.to_raw(cname, vals, True), dtype=torch.float32))
                members.append(child)
            t.update()
            with torch.no_grad():
                y = t(x)
                z = x
                for m in members:
                    z = m.forward(z)
            ctx.close("generic_is_sequence_of_children", y, z, TOL, key="generic/forward", **info)
            ctx.true("generic_not_identity", float((y - x).abs().max()) > 1e-4, key="generator/identity", **info)
            ctx.nontriv("generic", model, affine_model, D, gp)
        # parameters given as a dictionary / produced by a callable: children then hold plain tensors, so the
        # values are in the natural (un-squashed) domain; reference = explicit sequence of fixed-tensor transforms
        nat, ref_members = {}, []
        for n_, child in t.named_transforms():
            cname = type(child).__name__
            if n_ == "nonrigid":
                v_ = child.data().detach().clone()
                nat[n_] = v_
                extra = dict(stride=child.stride) if hasattr(child, "stride") else {}
                if hasattr(child, "exp"):
                    extra["steps"] = child.exp.steps
                ref_members.append(type(child)(child.grid(), params=v_.clone(), **extra))
            else:
                v_ = torch.tensor(X.natural_values(rng, cname, D, 1, g), dtype=torch.float32)
                nat[n_] = v_
                kw = dict(order=cfg.rotation_model) if cname == "EulerRotation" else {}
                ref_members.append(type(child)(g, params=v_.clone(), **kw))
        with torch.no_grad():
            z = x
            for m in ref_members:
                z = m(z) if False else m.update().forward(z)
        with ctx.guard("GenericSpatialTransform(params=dict)", key="exc/generic/params_dict", **info):
            td = S.GenericSpatialTransform(g, params={k_: v_.clone() for k_, v_ in nat.items()}, config=cfg)
            td.update()
            ctx.close("generic_from_dict_equals_sequence", td(x).detach(), z, TOL, key="generic/params_dict", **info)
        with ctx.guard("GenericSpatialTransform(params=callable)", key="exc/generic/params_callable/" + ("shearing" if "K" in affine_model and "Affine" in model else "other"), **info):
            box = X.Box({k_: v_.clone() for k_, v_ in nat.items()})
            tc = S.GenericSpatialTransform(g, params=box, config=cfg)
            yc = tc(x).detach()
            ctx.close("generic_from_callable_equals_sequence", yc, z, TOL, key="generic/params_callable", **info)
            ctx.true("callable_parameters_were_requested", box.calls >= 1, key="generic/params_callable", **info)
