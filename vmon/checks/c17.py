r"""C17 — deformation regularisers have the right null space, sign, scaling and units."""

from __future__ import annotations

import itertools

import numpy as np

from .. import gen
from ..oracle import fields as F
from ..oracle import spline as S

PROPERTY = "C17"
RULE = (
    "Each case draws a vector-field shape (D in {2,3}, sizes 6..14), a per-axis spacing, an affine field u = A p + t, "
    "a smooth random field and cubic B-spline coefficients, and evaluates about 30 relations: bending / curvature "
    "vanish on affine fields (interior for every derivative mode, whole grid for forward_central_backward) and are "
    "unchanged by adding one; diffusion, total variation, general gradient loss, divergence and elasticity vanish "
    "on translations and equal their analytic values on affine fields (1/2 |J|_F^2, sum |J_ij|, 1/2 (tr J)^2, "
    "lambda/2 (tr J)^2 + mu/4 sum (J_jk + J_kj)^2, (sum |J_ij|^p)^q); non-negativity; L(c u) = c^2 L(u); spacing "
    "powers h^-2 / h^-4 / h^-1; zero for linear transform tensors; B-spline bending against the analytic spline "
    "derivatives; mean/sum vs none; module wrappers; lame_parameters for every valid pair of elastic constants "
    "derived from a random (lambda, mu); inverse-consistency of exact inverse pairs and of known displacements in "
    "cube, voxel and world units for either align_corners flag. Non-trivial: every case; distinct = hash of shape, "
    "spacing and coefficients."
)
ASSUMPTIONS = [
    "finite differences are exact on affine fields in the interior (margin 2); analytic values from the Jacobian A",
    "float64 inputs where the functions preserve dtype: tolerance 1e-9 relative; float32 otherwise 1e-4",
]
ANCHORS = [
    ("deepali.losses.functional", "grad_loss"),
    ("deepali.losses.functional", "bending_loss"),
    ("deepali.losses.functional", "curvature_loss"),
    ("deepali.losses.functional", "diffusion_loss"),
    ("deepali.losses.functional", "divergence_loss"),
    ("deepali.losses.functional", "total_variation_loss"),
    ("deepali.losses.functional", "elasticity_loss"),
    ("deepali.losses.functional", "lame_parameters"),
    ("deepali.losses.functional", "inverse_consistency_loss"),
    ("deepali.core.flow", "denormalize_flow"),
    ("deepali.losses.flow", "Elasticity.__init__"),
    ("deepali.losses.bspline", "BSplineBending.forward"),
]
N_CASES = {"quick": 80, "thorough": 4000}
BUDGET = {"quick": 500, "thorough": 5400}
MODES = ["forward", "backward", "central", "forward_central_backward", "prewitt", "sobel", None]


def plan(tier, seed):
    return [["case", i] for i in range(N_CASES[tier])] + [["lame", k] for k in range(2 if tier == "quick" else 40)]


def mandatory(tier):
    return [f"mode/{m}" for m in MODES] + ["affine", "translation", "translation/sigma", "scaling", "spacing", "bspline", "lame", "inverse_consistency/cube", "inverse_consistency/voxel", "inverse_consistency/world", "modules", "modules/elastic_constants", "default_spacing", "linear_tensor", "inverse_consistency/float_margin", "inverse_consistency/reductions", "inverse_consistency/dense_exact_pair", "grad_loss/p/int/odd", "grad_loss/p/int/other", "grad_loss/p/float/other"]


def interior(a, m):
    return a[(Ellipsis,) + (slice(m, -m),) * (a.ndim - 2)] if m else a


def run_item(ctx, item):
    if item[0] == "lame":
        return lame(ctx, item[1])
    return case(ctx, item[1])


def lame(ctx, k):
    from deepali.losses.functional import lame_parameters

    rng = ctx.rng()
    ctx.bucket("lame")
    for _ in range(25):
        lam, mu = float(np.exp(rng.uniform(-3, 3))), float(np.exp(rng.uniform(-3, 3)))
        nu = lam / (2 * (lam + mu))
        E = mu * (3 * lam + 2 * mu) / (lam + mu)
        pairs = {
            "first+second": dict(first_parameter=lam, second_parameter=mu),
            "first+shear": dict(first_parameter=lam, shear_modulus=mu),
            "shear+poisson": dict(shear_modulus=mu, poissons_ratio=nu),
            "second+poisson": dict(second_parameter=mu, poissons_ratio=nu),
            "shear+youngs": dict(shear_modulus=mu, youngs_modulus=E),
            "first+poisson": dict(first_parameter=lam, poissons_ratio=nu),
            "first+youngs": dict(first_parameter=lam, youngs_modulus=E),
            "poisson+youngs": dict(poissons_ratio=nu, youngs_modulus=E),
        }
        ctx.nontriv("lame", lam, mu)
        for name, kw in pairs.items():
            with ctx.guard("lame_parameters", key=f"exc/lame_parameters/{name}", pair=name, lam=lam, mu=mu):
                got = lame_parameters(**kw)
                ctx.close("lame_parameters_standard_conversion", np.array(got, dtype=float), np.array([lam, mu]), 1e-6 * (lam + mu), key=f"lame/{name}", pair=name, lam=lam, mu=mu)
    # boundary value of the elastic constants: Poisson's ratio 0 (lambda = 0, E = 2 mu); the library rejects lambda < 0
    for nu0 in (0.0,):
        mu = float(np.exp(rng.uniform(-3, 3)))
        lam0 = 2 * mu * nu0 / (1 - 2 * nu0)
        E0 = 2 * mu * (1 + nu0)
        for name, kw in {"shear+poisson": dict(shear_modulus=mu, poissons_ratio=nu0), "second+poisson": dict(second_parameter=mu, poissons_ratio=nu0), "poisson+youngs": dict(poissons_ratio=nu0, youngs_modulus=E0), "first+second": dict(first_parameter=lam0, second_parameter=mu), "first+shear": dict(first_parameter=lam0, shear_modulus=mu)}.items():
            with ctx.guard("lame_parameters(boundary)", key=f"exc/lame_parameters/{name}", pair=name, poissons_ratio=nu0):
                got = lame_parameters(**kw)
                ctx.close("lame_parameters_at_boundary_values", np.array(got, dtype=float), np.array([lam0, mu]), 1e-6 * (abs(lam0) + mu), key=f"lame/{name}/boundary", pair=name, poissons_ratio=nu0)
        ctx.bucket("lame/boundary")
    with ctx.guard("lame_parameters(rubber)", key="exc/lame_parameters/material"):
        lam, mu = lame_parameters(material_name="rubber")
        ctx.close("rubber_preset", np.array([lam, mu]), np.array([2 * 0.0006 * 0.4999 / (1 - 2 * 0.4999), 0.0006]), 1e-9, key="lame/material")
    ctx.sample({"lame_pairs": "first+second, first+shear, shear+poisson, second+poisson, shear+youngs, first+poisson, first+youngs, poisson+youngs"})


def case(ctx, i):
    import torch
    from deepali.core.grid import Grid
    from deepali.losses import flow as LM
    from deepali.losses import functional as LF
    from deepali.losses.bspline import BSplineBending

    rng = ctx.rng()
    D = 2 if i % 2 == 0 else 3
    shape = tuple(int(rng.integers(6, 15 if D == 2 else 10)) for _ in range(D))
    N = int(rng.integers(1, 3))
    h = rng.choice([0.25, 0.5, 1.0, 1.5, 2.0], size=D)
    spacing = tuple(float(x) for x in h)
    info = dict(D=D, shape=list(shape), spacing=list(spacing))
    ctx.nontriv(info, i)
    ctx.sample(info)
    A = rng.normal(size=(N, D, D))
    tr = rng.normal(size=(N, D))
    pos = F.sample_positions(shape, h)
    u_aff = torch.tensor(np.stack([F.affine_poly(A[n], tr[n], pos) for n in range(N)]), dtype=torch.float64)
    u_tr = torch.tensor(np.stack([F.affine_poly(0 * A[n], tr[n], pos) for n in range(N)]), dtype=torch.float64)
    u_s = torch.tensor(np.stack([F.smooth_field(rng, shape, True, 1.5) * 5 for _ in range(N)]), dtype=torch.float64)
    lam, mu = float(np.exp(rng.uniform(-1, 1))), float(np.exp(rng.uniform(-1, 1)))
    trJ = np.trace(A, axis1=1, axis2=2)
    sym = A + np.swapaxes(A, 1, 2)
    # exponents keep their Python type: integer and float spellings of the same value must agree with the formula
    P_, Q_ = [1, 2, 3, 1.5, 4, 2.0, 5], [1, 0.5, 2, 1.0]
    p_, q_ = P_[int(rng.integers(len(P_)))], Q_[int(rng.integers(len(Q_)))]
    ctx.bucket(f"grad_loss/p/{type(p_).__name__}/{'odd' if p_ % 2 == 1 else 'other'}")
    analytic = {
        "diffusion_loss": 0.5 * (A**2).sum(axis=(1, 2)),
        "total_variation_loss": np.abs(A).sum(axis=(1, 2)),
        "divergence_loss": 0.5 * trJ**2,
        "elasticity_loss": lam / 2 * trJ**2 + mu / 4 * (sym**2).sum(axis=(1, 2)),
        "grad_loss": (np.abs(A) ** p_).sum(axis=(1, 2)) ** q_,
    }
    extra = {"elasticity_loss": dict(first_parameter=lam, second_parameter=mu), "grad_loss": dict(p=p_, q=q_)}
    first_order = list(analytic)
    second_order = ["bending_loss", "curvature_loss"]
    REL = 1e-8
    for mode in MODES:
        ctx.bucket(f"mode/{mode}")
        eff = mode or "forward_central_backward"
        m = 0 if eff == "forward_central_backward" else 2
        kw = dict(mode=mode, spacing=spacing)
        mi = dict(mode=str(mode), **info)
        # ---- second-order terms: null space contains affine fields
        for name in second_order:
            fn = getattr(LF, name)
            eff2 = mode or "sobel"
            m2 = 0 if eff2 == "forward_central_backward" else 2
            with ctx.guard(name, key=f"exc/{name}", **mi):
                ctx.bucket("affine")
                v = interior(fn(u_aff, reduction="none", **kw).numpy(), m2)
                if v.size:
                    ctx.close("second_order_energy_vanishes_on_affine_field", v, 0 * v, 1e-8 * (1 + np.abs(A).max() ** 2), key=f"{name}/affine_null", **mi)
                base = fn(u_s, reduction="none", **kw)
                plus = fn(u_s + u_aff, reduction="none", **kw)
                bi, pi = interior(base.numpy(), m2), interior(plus.numpy(), m2)
                if bi.size:
                    ctx.close("second_order_energy_unchanged_by_adding_affine_field", pi, bi, 1e-7 * (1 + np.abs(bi).max()), key=f"{name}/affine_invariance", **mi)
                ctx.true("non_negative", bool((base >= 0).all()), key=f"{name}/sign", **mi)
                c = float(rng.uniform(-3, 3))
                ctx.bucket("scaling")
                ctx.close("quadratic_in_the_field", fn(c * u_s, reduction="none", **kw), c * c * base, REL * (1 + float(base.abs().max()) * c * c), key=f"{name}/quadratic", **mi)
                ctx.bucket("spacing")
                s2 = float(rng.choice([0.5, 2.0, 3.0]))
                sc = fn(u_s, reduction="none", mode=mode, spacing=tuple(s2 * x for x in spacing))
                ctx.close("spacing_power_minus_four", sc, base / s2**4, REL * (1 + float(base.abs().max()) / s2**4), key=f"{name}/spacing", **mi)
                ctx.close("mean_is_mean_of_none", fn(u_s, **kw), base.mean(), REL * (1 + float(base.abs().max())), key=f"{name}/reduction", **mi)
                ctx.close("sum_is_sum_of_none", fn(u_s, reduction="sum", **kw), base.sum(), REL * (1 + float(base.abs().sum())), key=f"{name}/reduction", **mi)
        # ---- first-order terms
        for name in first_order:
            fn = getattr(LF, name)
            ekw = dict(extra.get(name, {}), **kw)
            with ctx.guard(name, key=f"exc/{name}", **mi):
                ctx.bucket("translation")
                v0 = fn(u_tr, reduction="none", **ekw)
                ctx.close("first_order_term_vanishes_on_translation", v0, torch.zeros_like(v0), 1e-9, key=f"{name}/translation_null", **mi)
                if mode != "bspline":
                    # with Gaussian pre-smoothing (sigma) a constant field stays constant up to the boundary
                    sg = float(rng.uniform(0.6, 1.4))
                    ctx.bucket("translation/sigma")
                    vs = fn(u_tr, reduction="none", sigma=sg, **ekw)
                    ctx.close("first_order_term_vanishes_on_translation_with_sigma", vs, torch.zeros_like(vs), 1e-8, key=f"{name}/translation_null", sigma=sg, **mi)
                    plus = fn(u_s + u_tr, reduction="none", sigma=sg, **ekw)
                    bs = fn(u_s, reduction="none", sigma=sg, **ekw)
                    ctx.close("adding_translation_changes_nothing_with_sigma", plus, bs, 1e-7 * (1 + float(bs.abs().max())), key=f"{name}/translation_null", sigma=sg, **mi)
                va = interior(fn(u_aff, reduction="none", **ekw).numpy(), m)
                if va.size:
                    want = np.broadcast_to(analytic[name].reshape((N, 1) + (1,) * D), va.shape)
                    ctx.close("analytic_value_on_affine_field", va, want, 1e-7 * (1 + np.abs(want).max()), key=f"{name}/affine_value", **mi)
                base = fn(u_s, reduction="none", **ekw)
                ctx.true("non_negative", bool((base >= 0).all()), key=f"{name}/sign", **mi)
                c = float(rng.uniform(-3, 3))
                power = {"total_variation_loss": abs(c), "grad_loss": abs(c) ** (p_ * q_)}.get(name, c * c)
                ctx.close("homogeneous_in_the_field", fn(c * u_s, reduction="none", **ekw), power * base, 1e-7 * (1 + float(base.abs().max()) * power), key=f"{name}/homogeneity", **mi)
                s2 = float(rng.choice([0.5, 2.0, 3.0]))
                sc = fn(u_s, reduction="none", mode=mode, spacing=tuple(s2 * x for x in spacing), **extra.get(name, {}))
                spow = {"total_variation_loss": s2, "grad_loss": s2 ** (p_ * q_)}.get(name, s2**2)
                ctx.close("spacing_power", sc, base / spow, 1e-7 * (1 + float(base.abs().max()) / spow), key=f"{name}/spacing", **mi)
                ctx.close("mean_is_mean_of_none", fn(u_s, **ekw), base.mean(), REL * (1 + float(base.abs().max())), key=f"{name}/reduction", **mi)
                ctx.close("sum_is_sum_of_none", fn(u_s, reduction="sum", **ekw), base.sum(), REL * (1 + float(base.abs().sum())), key=f"{name}/reduction", **mi)
    # ---- aliases and linear transform tensors
    with ctx.guard("aliases", key="exc/aliases", **info):
        ctx.bucket("linear_tensor")
        ctx.close("be_loss_alias", LF.be_loss(u_s), LF.bending_loss(u_s), 0.0, key="aliases")
        ctx.close("bending_energy_alias", LF.bending_energy(u_s), LF.bending_loss(u_s), 0.0, key="aliases")
        ctx.close("tv_loss_alias", LF.tv_loss(u_s), LF.total_variation_loss(u_s), 0.0, key="aliases")
        lin = torch.tensor(rng.normal(size=(N, D, D + 1)))
        for name in first_order + second_order:
            ekw = extra.get(name, {})
            for red in ("mean", "sum"):
                v = getattr(LF, name)(lin, reduction=red, **ekw)
                ctx.close("linear_transform_tensor_gives_zero", v, torch.zeros(()), 0.0, key=f"{name}/linear_tensor", reduction=red)
    # ---- B-spline bending energy equals the energy of the analytic spline derivatives
    with ctx.guard("bspline_bending", key="exc/bspline_bending", **info):
        ctx.bucket("bspline")
        cshape = tuple(int(rng.integers(5, 9)) for _ in range(D))
        stride = tuple(int(rng.integers(1, 4)) for _ in range(D))
        coef = rng.normal(size=(N, D) + cshape)
        ct = torch.tensor(coef, dtype=torch.float64)
        got = LF.bending_loss(ct, mode="bspline", stride=stride, spacing=spacing, reduction="none")
        out_shape = tuple((n - 3) * s for n, s in zip(cshape, stride[::-1]))
        want = np.zeros((N, 1) + out_shape)
        ax = "xyz"[:D]
        for a, b in itertools.combinations_with_replacement(range(D), 2):
            order = [0] * D
            order[a] += 1
            order[b] += 1
            d2 = S.evaluate(coef, out_shape, stride, order) / np.prod(h ** np.asarray(order))
            want += (1 if a == b else 2) * (d2**2).sum(axis=1, keepdims=True)
        ctx.true("bspline_bending_shape", tuple(got.shape) == want.shape, key="bspline_bending/shape", got=list(got.shape), want=list(want.shape), **info)
        if tuple(got.shape) == want.shape:
            ctx.close("bspline_bending_equals_energy_of_analytic_derivatives", got, want, 1e-6 * (1 + np.abs(want).max()), key="bspline_bending/value", stride=list(stride), **info)
        ctx.close("bspline_bending_loss_alias", LF.bspline_bending_loss(ct, stride=stride), LF.bending_loss(ct, mode="bspline", stride=stride), 1e-12, key="bspline_bending/alias")
        ctx.close("BSplineBending_module", BSplineBending(stride=stride)(ct), LF.bspline_bending_loss(ct, stride=stride), 1e-12, key="bspline_bending/module")
        ctx.close("BSplineBending_module_sum", BSplineBending(stride=stride, reduction="sum")(ct), LF.bspline_bending_loss(ct, stride=stride, reduction="sum"), 1e-9, key="bspline_bending/module")
    # ---- module wrappers pass every option through
    with ctx.guard("modules", key="exc/modules", **info):
        ctx.bucket("modules")
        mode = str(rng.choice(["central", "sobel", "forward"]))
        for red in ("mean", "sum"):
            kw = dict(mode=mode, spacing=spacing, reduction=red)
            pairs = [
                ("GradLoss", LM.GradLoss(p=p_, q=q_, **kw), LF.grad_loss(u_s, p=p_, q=q_, **kw)),
                ("Bending", LM.Bending(**kw), LF.bending_loss(u_s, **kw)),
                ("Curvature", LM.Curvature(**kw), LF.curvature_loss(u_s, **kw)),
                ("Diffusion", LM.Diffusion(**kw), LF.diffusion_loss(u_s, **kw)),
                ("Divergence", LM.Divergence(**kw), LF.divergence_loss(u_s, **kw)),
                ("TotalVariation", LM.TotalVariation(**kw), LF.total_variation_loss(u_s, **kw)),
                ("Elasticity", LM.Elasticity(first_parameter=lam, second_parameter=mu, **kw), LF.elasticity_loss(u_s, first_parameter=lam, second_parameter=mu, **kw)),
            ]
            for name, mod, want in pairs:
                ctx.close("module_equals_functional", mod(u_s), want, 1e-12 * (1 + float(want.abs())), key=f"modules/{name}", reduction=red)
        # default spacing is the spacing of the normalised cube, 2/(n-1) per axis in (x, ...) order: non-square shapes
        ctx.bucket("default_spacing")
        dsp = tuple(2.0 / (n - 1) for n in reversed(shape))
        for name in ("grad_loss", "diffusion_loss", "total_variation_loss", "divergence_loss", "elasticity_loss", "bending_loss", "curvature_loss"):
            fn = getattr(LF, name)
            ekw = dict(first_parameter=lam, second_parameter=mu) if name == "elasticity_loss" else (dict(p=p_, q=q_) if name == "grad_loss" else {})
            want = fn(u_s, mode=mode, spacing=dsp, reduction="none", **ekw)
            ctx.close("default_spacing_is_cube_spacing", fn(u_s, mode=mode, reduction="none", **ekw), want, 1e-9 * (1 + float(want.abs().max())), key=f"{name}/default_spacing", shape=list(shape))
        # every documented pair of elastic constants reaches the functional form through the module
        ctx.bucket("modules/elastic_constants")
        nu, E, G_ = lam / (2 * (lam + mu)), mu * (3 * lam + 2 * mu) / (lam + mu), mu
        for ekw in (dict(poissons_ratio=nu, youngs_modulus=E), dict(shear_modulus=G_, poissons_ratio=nu), dict(youngs_modulus=E, shear_modulus=G_), dict(first_parameter=lam, shear_modulus=G_), dict(material_name="rubber")):
            with ctx.guard("Elasticity(constants)", key="exc/modules/Elasticity/constants", constants=sorted(ekw)):
                want = LF.elasticity_loss(u_s, mode=mode, spacing=spacing, **ekw)
                ctx.close("elasticity_module_equals_functional_for_constants", LM.Elasticity(mode=mode, spacing=spacing, **ekw)(u_s), want, 1e-12 * (1 + float(want.abs())), key="modules/Elasticity/constants", constants=sorted(ekw))
                if "material_name" not in ekw:
                    ref_ = LF.elasticity_loss(u_s, mode=mode, spacing=spacing, first_parameter=lam, second_parameter=mu)
                    ctx.close("elastic_constant_pairs_are_equivalent", want, ref_, 1e-6 * (1 + float(ref_.abs())), key="elasticity/constants", constants=sorted(ekw))
        # stride reaches the functional form in bspline mode
        cshape = tuple(int(rng.integers(5, 8)) for _ in range(D))
        ct = torch.tensor(rng.normal(size=(N, D) + cshape))
        for name, cls, fn, ekw in (("Elasticity", LM.Elasticity, LF.elasticity_loss, dict(first_parameter=lam, second_parameter=mu)), ("Diffusion", LM.Diffusion, LF.diffusion_loss, {}), ("Bending", LM.Bending, LF.bending_loss, {})):
            want = fn(ct, mode="bspline", stride=2, **ekw)
            ctx.close("module_passes_stride", cls(mode="bspline", stride=2, **ekw)(ct), want, 1e-12 * (1 + float(want.abs())), key=f"modules/{name}/stride")
    # ---- inverse consistency
    for ac in (True, False):
        gp = gen.rand_grid_params(rng, D, max_size=12 if D == 2 else 8, min_size=6, big_offset=False, align_corners=ac)
        g = gen.make_grid(gp)
        n = np.array([float(k) for k in g.size()])
        sp = g.spacing().double().numpy()
        gi = dict(align_corners=ac, size=list(g.size()), **info)
        with ctx.guard("inverse_consistency_loss", key="exc/inverse_consistency_loss", **gi):
            Mf = np.tile(np.eye(D, D + 1), (1, 1, 1)) + rng.normal(size=(1, D, D + 1)) * 0.1
            full = np.concatenate([Mf[0], [[0] * D + [1]]], axis=0)
            Mi = np.linalg.inv(full)[None, :D]
            fw, iv = torch.tensor(Mf, dtype=torch.float64), torch.tensor(Mi, dtype=torch.float64)
            for units in ("cube", "voxel", "world"):
                ctx.bucket(f"inverse_consistency/{units}")
                v = LF.inverse_consistency_loss(fw, iv, grid=g, units=units)
                ctx.close("exact_linear_inverse_pair_has_zero_error", v, torch.zeros(()), 1e-9, key=f"inverse_consistency/{units}/exact_pair", **gi)
                # known displacement: forward = translation d (cube units), inverse = identity
                d = rng.uniform(-0.2, 0.2, size=D)
                fwd = torch.tensor(d.reshape(1, D, 1), dtype=torch.float64)
                ident = torch.tensor(np.eye(D, D + 1)[None], dtype=torch.float64)
                per = (n - 1) / 2 if ac else n / 2  # samples per cube unit
                want = {"cube": np.linalg.norm(d), "voxel": np.linalg.norm(d * per), "world": np.linalg.norm(d * per * sp)}[units]
                none = LF.inverse_consistency_loss(fwd, ident, grid=g, units=units, reduction="none")
                ctx.close("known_displacement_in_requested_unit", none, np.full(tuple(none.shape), want), 1e-6 * (1 + want), key=f"inverse_consistency/{units}/unit/ac={ac}", want=float(want), **gi)
                ctx.close("mean_of_constant_error", LF.inverse_consistency_loss(fwd, ident, grid=g, units=units), want, 1e-6 * (1 + want), key=f"inverse_consistency/{units}/reduction", **gi)
                mrg = 1
                nm = LF.inverse_consistency_loss(fwd, ident, grid=g, units=units, margin=mrg, reduction="none")
                ctx.true("margin_drops_border_samples", tuple(nm.shape[1:]) == tuple(int(k) - 2 * mrg for k in g.shape), key="inverse_consistency/margin", got=list(nm.shape), **gi)
                fm = float(rng.choice([0.15, 0.25, 0.3]))  # fraction of the grid size per axis (documented for float margins)
                nf = LF.inverse_consistency_loss(fwd, ident, grid=g, units=units, margin=fm, reduction="none")
                ctx.bucket("inverse_consistency/float_margin")
                ctx.true("float_margin_drops_fraction_of_each_axis", tuple(nf.shape[1:]) == tuple(int(k) - 2 * int(fm * int(k)) for k in g.shape), key="inverse_consistency/margin", got=list(nf.shape), grid_shape=list(g.shape), margin=fm, **gi)
                ctx.close("constant_error_with_float_margin", nf, np.full(tuple(nf.shape), want), 1e-6 * (1 + want), key=f"inverse_consistency/{units}/unit/ac={ac}", want=float(want), margin=fm, **gi)
                mask = torch.tensor((rng.uniform(size=(1, 1) + tuple(g.shape)) < 0.5).astype(np.float64))
                mask.reshape(-1)[0] = 1
                vm = LF.inverse_consistency_loss(fwd, ident, grid=g, units=units, mask=mask)
                ctx.close("masked_mean_counts_only_foreground", vm, want, 1e-6 * (1 + want), key=f"inverse_consistency/{units}/mask", **gi)
                # reductions of the constant error: sum = value x number of samples kept; a batch of N pairs with one
                # shared mask; mask together with a margin (foreground inside the kept region counts)
                ctx.close("sum_is_sum_of_none", LF.inverse_consistency_loss(fwd, ident, grid=g, units=units, reduction="sum"), none.double().sum(), 1e-6 * (1 + float(none.double().sum())), key=f"inverse_consistency/{units}/reduction/sum", **gi)
                ctx.close("sum_with_margin_is_sum_of_none", LF.inverse_consistency_loss(fwd, ident, grid=g, units=units, margin=mrg, reduction="sum"), nm.double().sum(), 1e-6 * (1 + float(nm.double().sum())), key=f"inverse_consistency/{units}/reduction/sum", **gi)
                fwd2 = torch.cat([fwd, fwd], dim=0)
                id2 = torch.cat([ident, ident], dim=0)
                vb = LF.inverse_consistency_loss(fwd2, id2, grid=g, units=units, mask=mask)
                ctx.close("masked_mean_of_batch_with_shared_mask", vb, want, 1e-6 * (1 + want), key=f"inverse_consistency/{units}/mask/shared_over_batch", **gi)
                vmm = LF.inverse_consistency_loss(fwd, ident, grid=g, units=units, mask=mask, margin=mrg)
                ctx.close("masked_mean_with_margin_counts_foreground_inside_kept_region", vmm, want, 1e-6 * (1 + want), key=f"inverse_consistency/{units}/mask/margin", **gi)
                ctx.bucket("inverse_consistency/reductions")
            # dense exact inverse pair: a contraction M of the cube (affine, keeps the domain invariant) as dense field,
            # its inverse M^-1 as dense field; linear interpolation reproduces affine fields, so the error is rounding
            Hh, bh = F.invariant_affine(rng, tuple(g.shape), ac)
            Mh = np.eye(D + 1) + float(rng.uniform(0.3, 0.9)) * F.hom(Hh, bh)
            xc = F.norm_coords(tuple(g.shape), ac)
            fwd_d = torch.tensor(F.affine_field(Mh, xc)[None], dtype=torch.float64)
            inv_d = torch.tensor(F.affine_field(np.linalg.inv(Mh), xc)[None], dtype=torch.float64)
            ctx.bucket("inverse_consistency/dense_exact_pair")
            for units in ("cube", "voxel", "world"):
                ed = LF.inverse_consistency_loss(fwd_d, inv_d, grid=g, units=units, reduction="none")
                ctx.close("dense_exact_inverse_pair_has_zero_error", ed, torch.zeros_like(ed), 1e-5 * (1 + float(np.abs(sp).max()) * float(n.max())), key=f"inverse_consistency/{units}/dense_pair/ac={ac}", **gi)
            # non-rigid: small SVF and its inverse exponential
            from deepali.core.flow import expv

            v_ = torch.tensor(F.smooth_field(rng, tuple(g.shape), ac, 0.3)[None], dtype=torch.float64)
            up, um = expv(v_, steps=6, align_corners=ac), expv(v_, steps=6, align_corners=ac, inverse=True)
            e = LF.inverse_consistency_loss(up, um, grid=g, units="voxel", margin=1)
            ctx.close("svf_exponentials_are_inverse_consistent", e, torch.zeros(()), 0.08, key="inverse_consistency/svf", **gi)
            e0 = LF.inverse_consistency_loss(up, torch.zeros_like(up), grid=g, units="voxel", reduction="none")
            wantv = np.linalg.norm(np.moveaxis(up[0].numpy(), 0, -1) * ((n - 1) / 2 if ac else n / 2), axis=-1)
            ctx.close("dense_forward_displacement_magnitude_in_voxels", e0[0], wantv, 1e-6, key=f"inverse_consistency/voxel/unit/ac={ac}", **gi)
