r"""C08 — homogeneous-transform and rotation algebra is exact for every operand form."""

from __future__ import annotations

import itertools

import numpy as np

from ..oracle import linalg as L

PROPERTY = "C08"
RULE = (
    "Exhaustive: homogeneous_matmul/hmm over D in {2,3} x the 9 ordered pairs of operand forms (translation, square, "
    "D x (D+1)) x leading batch shapes {none, 1, N} on either side (plus the unbatched (D,) translation vector and "
    "three-operand products), as_homogeneous_matrix / homogeneous_matrix / homogeneous_transform (points and "
    "vectors, every batch pairing); euler_rotation_matrix for all 27 three-letter order strings in 'zxz', 'ZXZ' and "
    "'Rz o Rx o Rz' notation x angle shapes (3,), (N,3), (A,B,3) and 2-D. Sampled per case: random angles in "
    "(-pi, pi], unit quaternions, rotation vectors up to pi - 1e-3, conversion chains between Euler angles, "
    "quaternions, axis-angle vectors and matrices compared as rotation matrices against numpy references, and the "
    "getters/setters of the linear transforms for both parameter kinds. Non-trivial: every random draw; distinct = "
    "hash of the drawn values."
)
ASSUMPTIONS = [
    "conversions are compared as rotation matrices, never as parameters (sign / branch ambiguity of quaternions and Euler angles)",
    "float64 inputs: tolerance 1e-9 (5e-6 for axis-angle conversions, whose normalisation adds eps = 1e-6); float32 transforms: 2e-5",
]
ANCHORS = [
    ("deepali.core.linalg", "homogeneous_matmul"),
    ("deepali.core.linalg", "hmm"),
    ("deepali.core.linalg", "as_homogeneous_tensor"),
    ("deepali.core.linalg", "as_homogeneous_matrix"),
    ("deepali.core.linalg", "homogeneous_matrix"),
    ("deepali.core.linalg", "homogeneous_transform"),
    ("deepali.core.affine", "euler_rotation_matrix"),
    ("deepali.core.affine", "euler_rotation_angles"),
    ("deepali.core.affine", "euler_rotation_order"),
    ("deepali.core._kornia", "angle_axis_to_rotation_matrix"),
    ("deepali.core._kornia", "rotation_matrix_to_angle_axis"),
    ("deepali.core._kornia", "rotation_matrix_to_quaternion"),
    ("deepali.core._kornia", "quaternion_to_rotation_matrix"),
    ("deepali.core._kornia", "quaternion_to_angle_axis"),
    ("deepali.core._kornia", "angle_axis_to_quaternion"),
    ("deepali.core._kornia", "normalize_quaternion"),
]
N_CASES = {"quick": 60, "thorough": 20000}
BUDGET = {"quick": 400, "thorough": 3600}
FORMS = ["translation", "square", "homogeneous"]
BATCH = ["none", "one", "N"]
ORDERS = ["".join(p) for p in itertools.product("XYZ", repeat=3)]


def plan(tier, seed):
    return [["matmul", D] for D in (2, 3)] + [["euler_orders", k] for k in range(3)] + [["case", i] for i in range(N_CASES[tier])]


def mandatory(tier):
    out = [f"matmul/{a}x{b}/{ba}x{bb}/D{D}" for a in FORMS for b in FORMS for ba in BATCH for bb in BATCH for D in (2, 3)]
    out += [f"order/{o}" for o in ORDERS] + ["euler2d", "euler_angles/ZXZ", "euler_angles/XZX", "quaternion", "angle_axis", "setters/Parameter", "setters/buffer", "setters/requires_grad_toggle", "transform_points", "transform_vectors", "builders", "quaternion_getter/negative_w", "matmul/three_operands", "euler_angles/degenerate_middle_angle"]
    return out


def make(rng, form, batch, D, N=3):
    lead = {"none": (), "one": (1,), "N": (N,)}[batch]
    last = {"translation": (D, 1), "square": (D, D), "homogeneous": (D, D + 1)}[form]
    return rng.normal(size=lead + last)


def run_item(ctx, item):
    if item[0] == "matmul":
        ctx.sample({"item": item, "workload": "all 9 ordered pairs of operand forms (translation vector, square matrix, D x (D+1) matrix) x batch shapes (none, 1, N), compared with explicit (D+1) x (D+1) numpy products"})
        return matmul(ctx, item[1])
    if item[1] in (0, 1) if len(item) > 1 and isinstance(item[1], int) else False:
        ctx.sample({"item": item})
    if item[0] == "euler_orders":
        return euler_orders(ctx, item[1])
    return case(ctx, item[1])


def matmul(ctx, D):
    import torch
    from deepali.core.linalg import as_homogeneous_matrix, hmm, homogeneous_matmul, homogeneous_matrix, homogeneous_transform

    rng = ctx.rng()
    tol = 1e-12
    for fa, fb, ba, bb in itertools.product(FORMS, FORMS, BATCH, BATCH):
        a, b = make(rng, fa, ba, D), make(rng, fb, bb, D)
        info = dict(D=D, forms=[fa, fb], batch=[ba, bb])
        ctx.nontriv("matmul", D, fa, fb, ba, bb)
        ref = L.full(a, D) @ L.full(b, D)
        with ctx.guard("homogeneous_matmul", **info):
            ctx.bucket(f"matmul/{fa}x{fb}/{ba}x{bb}/D{D}")
            ta, tb_ = torch.tensor(a), torch.tensor(b)
            c = homogeneous_matmul(ta, tb_)
            c_first = c.clone()
            ctx.close("matmul_is_composition", L.full(c.numpy(), D), ref, tol * 10, key=f"matmul/{fa}x{fb}", **info)
            # composing is a function of its operands: they are left as they were, the same call returns the same
            # again, and an earlier result does not change when the call is repeated
            c_second = homogeneous_matmul(ta, tb_)
            ctx.true("matmul_operands_unchanged", bool((ta.numpy() == a).all()) and bool((tb_.numpy() == b).all()), key=f"matmul/operands_mutated/{fa}x{fb}", **info)
            ctx.close("matmul_repeatable", c_second, c_first.numpy(), 0.0, key=f"matmul/repeat/{fa}x{fb}", **info)
            ctx.close("matmul_earlier_result_unaffected", c, c_first.numpy(), 0.0, key=f"matmul/repeat/{fa}x{fb}", **info)
            ctx.true("matmul_leading_shape", tuple(c.shape[:-2]) == tuple(ref.shape[:-2]), key="matmul/shape", got=list(c.shape), want=list(ref.shape), **info)
            h = hmm(torch.tensor(a), torch.tensor(b))
            ctx.true("hmm_returns_D_by_D_plus_1", tuple(h.shape[-2:]) == (D, D + 1), key="hmm/shape", got=list(h.shape), **info)
            ctx.close("hmm_is_composition", L.full(h.numpy(), D), ref, tol * 10, key=f"matmul/{fa}x{fb}", **info)
            # apply one after the other == apply the composite
            x = rng.normal(size=(5, D))
            y = (L.full(b, D)[..., :D, :D] @ x.T).swapaxes(-1, -2) + L.full(b, D)[..., None, :D, D]
            y = (L.full(a, D)[..., :D, :D] @ y.swapaxes(-1, -2)).swapaxes(-1, -2) + L.full(a, D)[..., None, :D, D]
            yc = (ref[..., :D, :D] @ x.T).swapaxes(-1, -2) + ref[..., None, :D, D]
            ctx.close("oracle_self_check", y, yc, 1e-10, key="oracle")
    # unbatched translation vector (D,), float32 / mixed dtype, three operands
    with ctx.guard("homogeneous_matmul(vector)", D=D):
        t = rng.normal(size=D)
        A = rng.normal(size=(D, D))
        H = rng.normal(size=(2, D, D + 1))
        c = homogeneous_matmul(torch.tensor(t), torch.tensor(A))
        ctx.close("vector_translation_form", L.full(c.numpy(), D), L.full(t, D) @ L.full(A, D), tol, key="matmul/translationxsquare")
        c3 = homogeneous_matmul(torch.tensor(t), torch.tensor(H), torch.tensor(A))
        ctx.close("three_operands", L.full(c3.numpy(), D), L.full(t, D) @ L.full(H, D) @ L.full(A, D), tol * 10, key="matmul/three")
        # every ordered triple of operand forms (the type of an intermediate result matters for the third operand)
        for f1, f2, f3 in itertools.product(FORMS, FORMS, FORMS):
            o1, o2, o3 = make(rng, f1, "none", D), make(rng, f2, "N" if f2 == f1 else "none", D), make(rng, f3, "none", D)
            with ctx.guard("homogeneous_matmul(3 operands)", key=f"exc/matmul3/{f1}x{f2}x{f3}", D=D):
                c3 = homogeneous_matmul(torch.tensor(o1), torch.tensor(o2), torch.tensor(o3))
                ctx.close("three_operands_compose_left_to_right", L.full(c3.numpy(), D), L.full(o1, D) @ L.full(o2, D) @ L.full(o3, D), tol * 100, key=f"matmul/three/{f1}x{f2}x{f3}", D=D)
        ctx.bucket("matmul/three_operands")
        ci = homogeneous_matmul(torch.tensor(np.round(t * 4).astype(np.int64)), torch.tensor(A, dtype=torch.float32))
        ctx.close("integer_first_operand", L.full(ci.double().numpy(), D), L.full(np.round(t * 4), D) @ L.full(A.astype(np.float32), D), 1e-5, key="matmul/dtype")
        ctx.true("integer_first_operand_dtype", ci.dtype == torch.float32, key="matmul/dtype", got=str(ci.dtype))
    # as_homogeneous_matrix / homogeneous_matrix keep the map
    for form, batch in itertools.product(FORMS, BATCH):
        a = make(rng, form, batch, D)
        info = dict(D=D, form=form, batch=batch)
        with ctx.guard("as_homogeneous_matrix", **info):
            m = as_homogeneous_matrix(torch.tensor(a))
            ctx.true("as_homogeneous_matrix_shape", tuple(m.shape[-2:]) == (D, D + 1) and tuple(m.shape[:-2]) == tuple(a.shape[:-2]), key="as_matrix/shape", got=list(m.shape), **info)
            ctx.close("as_homogeneous_matrix_keeps_map", L.full(m.numpy(), D), L.full(a, D), 0.0, key="as_matrix/map", **info)
            off = rng.normal(size=D)
            m2 = homogeneous_matrix(torch.tensor(a), offset=torch.tensor(off))
            want = L.full(a, D)
            want[..., :D, D] += off
            ctx.close("homogeneous_matrix_adds_offset", L.full(m2.numpy(), D), want, 1e-14, key="matrix/offset", **info)
            m3 = homogeneous_matrix(torch.tensor(a))
            ctx.close("homogeneous_matrix_keeps_map", L.full(m3.numpy(), D), L.full(a, D), 0.0, key="as_matrix/map", **info)
    # homogeneous_transform: points and vectors, every batch pairing
    for form in FORMS:
        for tb, pb in itertools.product(BATCH, ["vector", "set", "one", "N", "grid"]):
            a = make(rng, form, tb, D)
            N = 3
            pshape = {"vector": (D,), "set": (7, D), "one": (1, 7, D), "N": (N, 7, D), "grid": (N, 2, 3, D)}[pb]
            if tb != "N" and pb == "set":
                pass
            x = rng.normal(size=pshape)
            info = dict(D=D, form=form, transform_batch=tb, points=pb)
            F_ = L.full(a, D)
            Lm, tv = F_[..., :D, :D], F_[..., :D, D]
            if tb == "N" and pb in ("set",):
                continue  # (7, D) points with N transforms: leading dim 7 is not a batch of N -> documented rejection
            if tb == "N":
                xb = np.broadcast_to(x, (N,) + (x.shape[1:] if x.ndim > 1 and x.shape[0] in (1, N) else x.shape)) if pb != "vector" else np.broadcast_to(x, (N, D))
                refp = np.einsum("nij,n...j->n...i", Lm, xb) + tv.reshape((N,) + (1,) * (xb.ndim - 2) + (D,))
                refv = np.einsum("nij,n...j->n...i", Lm, xb)
            else:
                Lm2, tv2 = Lm.reshape(D, D), tv.reshape(D)
                refp = x @ Lm2.T + tv2
                refv = x @ Lm2.T
            with ctx.guard("homogeneous_transform", **info):
                y = homogeneous_transform(torch.tensor(a), torch.tensor(x))
                ctx.bucket("transform_points")
                ctx.close("transform_points_vs_numpy", y, refp, 1e-12, key=f"transform/points/{form}", **info)
                v = homogeneous_transform(torch.tensor(a), torch.tensor(x), vectors=True)
                ctx.bucket("transform_vectors")
                ctx.close("transform_vectors_ignores_exactly_translation", v, refv, 1e-12, key=f"transform/vectors/{form}", **info)
                # the same maps through the wrappers in core.affine (re-exported by core.functional)
                from deepali.core import affine as A_

                ctx.close("affine_transform_points_vs_numpy", A_.transform_points(torch.tensor(a), torch.tensor(x)), refp, 1e-12, key=f"transform/points/{form}", wrapper="affine.transform_points", **info)
                ctx.close("affine_transform_vectors_ignores_exactly_translation", A_.transform_vectors(torch.tensor(a), torch.tensor(x)), refv, 1e-12, key=f"transform/vectors/{form}", wrapper="affine.transform_vectors", **info)


def notations(order):
    yield order.lower()
    yield order
    yield " o ".join("R" + c.lower() for c in order)


def euler_orders(ctx, k):
    import torch
    from deepali.core.affine import euler_rotation_matrix, euler_rotation_order

    rng = ctx.rng()
    shapes = [(3,), (4, 3), (2, 3, 3)]
    shape = shapes[k]
    for order in ORDERS:
        for note in notations(order):
            info = dict(order=note, angles_shape=list(shape))
            with ctx.guard("euler_rotation_order", **info):
                ctx.true("order_normalised", euler_rotation_order(note) == order, key="euler/order_string", got=euler_rotation_order(note), **info)
            a = rng.uniform(-np.pi, np.pi, size=shape)
            with ctx.guard("euler_rotation_matrix", key="exc/euler_rotation_matrix/" + ("unbatched" if len(shape) == 1 else "batched" if len(shape) == 2 else "multibatch") + ("/closed" if order in ("XYZ", "ZYX", "ZXY", "XZX", "ZXZ") else "/generic"), **info):
                R = euler_rotation_matrix(torch.tensor(a), order=note)
                ctx.bucket(f"order/{order}")
                ctx.nontriv("euler", order, note, shape)
                ok = ctx.true("euler_matrix_shape", tuple(R.shape) == tuple(shape[:-1]) + (3, 3), key="euler/shape", got=list(R.shape), **info)
                if not ok:
                    continue
                flat = a.reshape(-1, 3)
                ref = np.stack([L.euler(x, order) for x in flat]).reshape(tuple(shape[:-1]) + (3, 3))
                ctx.close("euler_matrix_is_product_of_elementary_rotations", R, ref, 1e-12, key=f"euler/matrix/{order}", **info)
                ctx.true("euler_matrix_is_proper_rotation", L.is_rotation(R.numpy()), key=f"euler/proper/{order}", **info)
                Rh = euler_rotation_matrix(torch.tensor(a), order=note, homogeneous=True)
                ctx.close("euler_homogeneous_variant", L.full(Rh.numpy(), 3), L.full(ref, 3), 1e-12, key=f"euler/matrix/{order}", **info)
    # default order, 2-D
    with ctx.guard("euler_rotation_matrix(2d)"):
        ctx.bucket("euler2d")
        for sh in [(1,), (5, 1), ()]:
            a = rng.uniform(-np.pi, np.pi, size=sh)
            R = euler_rotation_matrix(torch.tensor(a))
            ref = np.stack([L.rot2(x) for x in np.atleast_1d(a).reshape(-1)]).reshape(tuple(np.atleast_1d(a).shape[:-1]) + (2, 2))
            ctx.close("euler_2d_rotation", R, ref, 1e-12, key="euler/2d", angles_shape=list(sh))
        a = rng.uniform(-np.pi, np.pi, size=(3,))
        ctx.close("default_order_is_zxz", euler_rotation_matrix(torch.tensor(a)), L.euler(a, "ZXZ"), 1e-12, key="euler/default")


def case(ctx, i):
    import torch
    from deepali.core import affine as A
    from deepali.core import linalg as K
    from deepali.core.grid import Grid
    from deepali import spatial as S

    rng = ctx.rng()
    ctx.nontriv("case", i)
    N = 4
    # ---------------- Euler angles <- matrix for the supported orders
    for order in ("ZXZ", "XZX"):
        with ctx.guard("euler_rotation_angles", order=order):
            ctx.bucket(f"euler_angles/{order}")
            a = rng.uniform(-np.pi, np.pi, size=(N, 3))
            if i % 3 == 0:
                a[0, 1] = float(rng.choice([0.0, np.pi]))  # middle angle exactly 0 or pi: a rotation about the outer axis alone
                ctx.bucket("euler_angles/degenerate_middle_angle")
            R = np.stack([L.euler(x, order) for x in a])
            ang = A.euler_rotation_angles(torch.tensor(R), order=order)
            back = A.euler_rotation_matrix(ang, order=order)
            ctx.close("euler_angles_roundtrip_same_rotation", back, R, 1e-7, key=f"euler_angles/{order}", angles=a[0].tolist())
            Rh = np.concatenate([R, np.zeros((N, 3, 1))], axis=2)
            ang2 = A.euler_rotation_angles(torch.tensor(Rh), order=order)
            ctx.close("euler_angles_accepts_homogeneous", ang2, ang, 1e-12, key=f"euler_angles/{order}")
    with ctx.guard("euler_rotation_angles(2d)"):
        a = rng.uniform(-np.pi, np.pi, size=(N,))
        R = np.stack([L.rot2(x) for x in a])
        ang = A.euler_rotation_angles(torch.tensor(R))
        back = A.euler_rotation_matrix(ang.reshape(N, 1))
        ctx.close("euler_angles_2d_roundtrip_same_rotation", back, R, 1e-7, key="euler_angles/2d", angles=a.tolist())
    # ---------------- elementary matrix builders: the homogeneous form is the same map as the square form
    with ctx.guard("builders", key="exc/builders"):
        ctx.bucket("builders")
        for D in (2, 3):
            for lead in ((), (N,)):
                x = rng.normal(size=(5, D))
                sc = np.exp(rng.uniform(-1, 1, size=lead + (D,)))
                sh = rng.uniform(-1.2, 1.2, size=lead + (D * (D - 1) // 2,))
                of = rng.normal(size=lead + (D,))
                iu = np.triu_indices(D, 1)

                def ref_shear(a):
                    M = np.eye(D)
                    M[iu] = np.tan(a)
                    return M

                refs = {
                    "scaling_transform": (sc, lambda a: np.diag(a), np.zeros(D)),
                    "shear_matrix": (sh, ref_shear, np.zeros(D)),
                }
                for name, (arg, ref_fn, _) in refs.items():
                    fn = getattr(A, name)
                    sq = fn(torch.tensor(arg))
                    ho = fn(torch.tensor(arg), homogeneous=True)
                    want = np.stack([ref_fn(a) for a in arg.reshape(-1, arg.shape[-1])]).reshape(lead + (D, D))
                    ctx.close(f"{name}_vs_oracle", sq, want, 1e-12, key=f"builders/{name}", D=D, lead=list(lead))
                    ctx.true(f"{name}_homogeneous_shape", tuple(ho.shape) == lead + (D, D + 1), key=f"builders/{name}/homogeneous", D=D, got=list(ho.shape))
                    if tuple(ho.shape) == lead + (D, D + 1):
                        ctx.close(f"{name}_homogeneous_same_map", ho, np.concatenate([want, np.zeros(lead + (D, 1))], axis=-1), 1e-12, key=f"builders/{name}/homogeneous", D=D, lead=list(lead))
                        ctx.close(f"{name}_homogeneous_equals_converted", ho, K.as_homogeneous_matrix(sq)[..., :D, :], 1e-12, key=f"builders/{name}/homogeneous", D=D, lead=list(lead))
                tv = A.translation(torch.tensor(of))
                th = A.translation(torch.tensor(of), homogeneous=True)
                ctx.true("translation_shapes", tuple(tv.shape) == lead + (D, 1) and tuple(th.shape) == lead + (D, D + 1), key="builders/translation", got=[list(tv.shape), list(th.shape)])
                if tuple(th.shape) == lead + (D, D + 1):
                    want = np.concatenate([np.broadcast_to(np.eye(D), lead + (D, D)), of[..., None]], axis=-1)
                    ctx.close("translation_homogeneous_same_map", th, want, 1e-12, key="builders/translation", D=D, lead=list(lead))
                    ctx.close("translation_vector_form", tv[..., 0], of, 0.0, key="builders/translation", D=D)
                idm = A.identity_transform(lead + (D,), homogeneous=True, dtype=torch.float64)
                ctx.close("identity_transform_homogeneous", idm, np.concatenate([np.broadcast_to(np.eye(D), lead + (D, D)), np.zeros(lead + (D, 1))], axis=-1), 0.0, key="builders/identity", D=D)
                ctx.close("identity_transform_square", A.identity_transform(lead + (D,), dtype=torch.float64), np.broadcast_to(np.eye(D), lead + (D, D)), 0.0, key="builders/identity", D=D)
    # ---------------- quaternions / axis-angle
    with ctx.guard("quaternion"):
        ctx.bucket("quaternion")
        q = rng.normal(size=(N, 4))
        q /= np.linalg.norm(q, axis=1, keepdims=True)
        Rq = np.stack([L.quat(x) for x in q])
        ctx.close("quaternion_to_rotation_matrix_wxyz", K.quaternion_to_rotation_matrix(torch.tensor(q)), Rq, 1e-10, key="quaternion/to_matrix")
        q2 = K.rotation_matrix_to_quaternion(torch.tensor(Rq))
        ctx.close("rotation_matrix_to_quaternion_roundtrip", np.stack([L.quat(x) for x in q2.numpy()]), Rq, 1e-6, key="quaternion/from_matrix")
        ctx.close("rotation_matrix_to_quaternion_unit_norm", q2.norm(dim=1), np.ones(N), 1e-6, key="quaternion/from_matrix")
        qs = q * rng.uniform(0.2, 5.0, size=(N, 1))
        qn = K.normalize_quaternion(torch.tensor(qs))
        ctx.close("normalize_quaternion", qn, q, 1e-10, key="quaternion/normalize")
        aa = K.quaternion_to_angle_axis(torch.tensor(q))
        ctx.close("quaternion_to_angle_axis_same_rotation", np.stack([L.rodrigues(x) for x in aa.numpy()]), Rq, 5e-6, key="quaternion/to_angle_axis")
        lg = K.quaternion_exp_to_log(torch.tensor(q))
        ex = K.quaternion_log_to_exp(lg)
        ctx.close("quaternion_log_exp_roundtrip_same_rotation", np.stack([L.quat(x) for x in ex.numpy()]), Rq, 1e-6, key="quaternion/log_exp")
    with ctx.guard("angle_axis"):
        ctx.bucket("angle_axis")
        v = rng.normal(size=(N, 3))
        v = v / np.linalg.norm(v, axis=1, keepdims=True) * rng.uniform(1e-3, np.pi - 1e-3, size=(N, 1))
        if i % 5 == 0:
            v[0] *= 1e-4 / np.linalg.norm(v[0])  # small-angle branch
        Rv = np.stack([L.rodrigues(x) for x in v])
        ctx.close("angle_axis_to_rotation_matrix", K.angle_axis_to_rotation_matrix(torch.tensor(v)), Rv, 5e-6,  # eps = 1e-6 regulariser in the normalisation
                   key="angle_axis/to_matrix")
        back = K.rotation_matrix_to_angle_axis(torch.tensor(Rv))
        ctx.close("rotation_matrix_to_angle_axis_roundtrip", np.stack([L.rodrigues(x) for x in back.numpy()]), Rv, 1e-6, key="angle_axis/from_matrix")
        qa = K.angle_axis_to_quaternion(torch.tensor(v))
        ctx.close("angle_axis_to_quaternion_same_rotation", np.stack([L.quat(x) for x in qa.numpy()]), Rv, 5e-6, key="angle_axis/to_quaternion")
    # ---------------- transforms' getters and setters, both parameter kinds
    for kind in ("Parameter", "buffer"):
        params = True if kind == "Parameter" else False
        ctx.bucket(f"setters/{kind}")
        tol = 3e-5
        g3 = Grid(size=(6, 5, 4))
        g2 = Grid(size=(6, 5))
        with ctx.guard("EulerRotation.angles_", key=f"exc/EulerRotation.angles_/{kind}", kind=kind):
            for order in (None, "ZXZ", "XZX", "XYZ", "zyx", "Rz o Ry o Rx"):
                t = S.EulerRotation(g3, groups=2, params=params, order=order)
                a = rng.uniform(-3.0, 3.0, size=(2, 3))
                t.angles_(torch.tensor(a, dtype=torch.float32))
                ctx.close("euler_angles_setter_getter", t.angles(), a, tol, key="setters/EulerRotation.angles", kind=kind, order=str(order))
                o = A.euler_rotation_order(order)
                ref = np.stack([L.euler(x, o) for x in a])
                ctx.close("euler_transform_matrix", L.full(t.matrix().detach().numpy(), 3), L.full(ref, 3), tol, key="setters/EulerRotation.matrix", kind=kind, order=str(order))
                ctx.close("euler_transform_tensor", t.tensor().detach(), ref, tol, key="setters/EulerRotation.matrix", kind=kind, order=str(order))
                # the inverted rotation is the transpose, for every order
                ti = t.inverse(link=False, update_buffers=True)
                ctx.close("euler_inverse_is_transpose", ti.tensor().detach(), np.swapaxes(ref, -1, -2), tol, key="setters/EulerRotation.inverse", kind=kind, order=str(order))
                if kind == "Parameter":
                    # freezing / unfreezing the parameter between setter and getter does not change the rotation
                    ctx.bucket("setters/requires_grad_toggle")
                    t.requires_grad_(False)
                    ctx.close("euler_angles_getter_after_freezing", t.angles(), a, tol, key="setters/EulerRotation.frozen", kind=kind, order=str(order))
                    ctx.close("euler_tensor_after_freezing", t.tensor().detach(), ref, tol, key="setters/EulerRotation.frozen", kind=kind, order=str(order))
                    a2 = rng.uniform(-3.0, 3.0, size=(2, 3))
                    t.angles_(torch.tensor(a2, dtype=torch.float32))
                    t.requires_grad_(True)
                    ctx.close("euler_angles_set_while_frozen_then_unfrozen", t.angles(), a2, tol, key="setters/EulerRotation.frozen", kind=kind, order=str(order))
            t2 = S.EulerRotation(g2, groups=2, params=params)
            a = rng.uniform(-3.0, 3.0, size=(2, 1))
            t2.angles_(torch.tensor(a, dtype=torch.float32))
            ctx.close("euler_2d_transform_matrix", t2.tensor().detach(), np.stack([L.rot2(x[0]) for x in a]), tol, key="setters/EulerRotation.matrix", kind=kind, order="2d")
        for order in ("ZXZ", "XZX"):
            with ctx.guard("EulerRotation.matrix_", key=f"exc/EulerRotation.matrix_/3d", kind=kind, order=order):
                t = S.EulerRotation(g3, groups=2, params=params, order=order)
                a = rng.uniform(-3.0, 3.0, size=(2, 3))
                a[:, 1] = np.abs(a[:, 1])
                if rng.integers(0, 4) == 0:  # near gimbal lock: middle angle close to 0 or pi
                    a[0, 1] = float(rng.choice([0.0, np.pi, 1e-4, 1e-3, 1e-2, np.pi - 1e-3, np.pi - 1e-2]))  # exactly 0 / pi: the rotation is about one axis only
                    ctx.bucket("euler_setter_near_gimbal_lock")
                R = np.stack([L.euler(x, order) for x in a])
                t.matrix_(torch.tensor(R, dtype=torch.float32))
                # float32 acos() of the middle angle is conditioned like sqrt(2 eps) = 3.5e-4 rad near 0 and pi;
                # the statement asks for the same rotation, not for the best-conditioned extraction: 1e-3
                ctx.close("euler_matrix_setter_same_rotation", t.tensor().detach(), R, 1e-3, key=f"setters/EulerRotation.matrix_/{order}", kind=kind)
        with ctx.guard("EulerRotation.matrix_(2d)", key="exc/EulerRotation.matrix_/2d", kind=kind):
            t2 = S.EulerRotation(g2, groups=2, params=params)
            a = rng.uniform(-3.0, 3.0, size=(2,))
            R = np.stack([L.rot2(x) for x in a])
            t2.matrix_(torch.tensor(R, dtype=torch.float32))
            ctx.close("euler_2d_matrix_setter_same_rotation", t2.tensor().detach(), R, 1e-4, key="setters/EulerRotation.matrix_/2d", kind=kind)
        with ctx.guard("QuaternionRotation", key=f"exc/QuaternionRotation/{kind}", kind=kind):
            t = S.QuaternionRotation(g3, groups=2, params=params)
            q = rng.normal(size=(2, 4))
            t.quaternion_(torch.tensor(q, dtype=torch.float32))
            Rq = np.stack([L.quat(x) for x in q])
            ctx.close("quaternion_setter_matrix", t.tensor().detach(), Rq, tol, key="setters/QuaternionRotation.quaternion_", kind=kind)
            ctx.close("quaternion_getter_unit", t.quaternion().detach().norm(dim=1), np.ones(2), tol, key="setters/QuaternionRotation.quaternion", kind=kind)
            ctx.close("quaternion_getter_same_rotation", np.stack([L.quat(x) for x in t.quaternion().detach().double().numpy()]), Rq, tol * 5, key="setters/QuaternionRotation.quaternion", kind=kind, w=q[:, 0].tolist())
            ctx.bucket("quaternion_getter/negative_w" if (q[:, 0] < 0).any() else "quaternion_getter/positive_w")
            t.matrix_(torch.tensor(Rq, dtype=torch.float32))
            ctx.close("quaternion_matrix_setter_same_rotation", t.tensor().detach(), Rq, 1e-4, key="setters/QuaternionRotation.matrix_", kind=kind)
            ctx.close("quaternion_getter_after_matrix_setter_same_rotation", np.stack([L.quat(x) for x in t.quaternion().detach().double().numpy()]), Rq, 1e-4, key="setters/QuaternionRotation.quaternion", kind=kind)
        with ctx.guard("Scaling", key=f"exc/Scaling/{kind}", kind=kind):
            for cls, shape in ((S.IsotropicScaling, (2, 1)), (S.AnisotropicScaling, (2, 3))):
                t = cls(g3, groups=2, params=params)
                s = np.exp(rng.uniform(-0.9, 0.9, size=shape))
                t.scales_(torch.tensor(s, dtype=torch.float32))
                ctx.close("scales_setter_getter", t.scales(), s, tol * 5, key=f"setters/{cls.__name__}.scales", kind=kind)
                ref = np.stack([np.diag(np.broadcast_to(x, (3,))) for x in s])
                ctx.close("scaling_matrix", t.tensor().detach(), ref, tol * 5, key=f"setters/{cls.__name__}.matrix", kind=kind)
        with ctx.guard("Shearing", key=f"exc/Shearing/{kind}", kind=kind):
            t = S.Shearing(g3, groups=2, params=params)
            a = rng.uniform(-0.7, 0.7, size=(2, 3))
            t.angles_(torch.tensor(a, dtype=torch.float32))
            ctx.close("shear_angles_setter_getter", t.angles(), a, tol, key="setters/Shearing.angles", kind=kind)
            ref = np.stack([np.array([[1, np.tan(x[0]), np.tan(x[1])], [0, 1, np.tan(x[2])], [0, 0, 1]]) for x in a])
            ctx.close("shear_matrix", t.tensor().detach(), ref, tol * 5, key="setters/Shearing.matrix", kind=kind)
            ctx.close("shear_unit_determinant", np.linalg.det(t.tensor().detach().double().numpy()), np.ones(2), 1e-4, key="setters/Shearing.matrix", kind=kind)
        with ctx.guard("Translation/Homogeneous", key=f"exc/TranslationHomogeneous/{kind}", kind=kind):
            t = S.Translation(g3, groups=2, params=params)
            o = rng.normal(size=(2, 3))
            t.offset_(torch.tensor(o, dtype=torch.float32))
            ctx.close("translation_offset", L.full(t.tensor().detach().numpy(), 3), L.full(o[..., None], 3), tol, key="setters/Translation.offset", kind=kind)
            h = S.HomogeneousTransform(g3, groups=2, params=params)
            M = rng.normal(size=(2, 3, 4))
            h.matrix_(torch.tensor(M, dtype=torch.float32))
            ctx.close("homogeneous_matrix_setter", h.matrix().detach(), M, tol, key="setters/HomogeneousTransform.matrix_", kind=kind)
