r"""C07 — inverse() really inverts: T^-1(T(x)) = x for every invertible transform model."""

from __future__ import annotations

import itertools

import numpy as np

from .. import gen
from .. import xforms as X

PROPERTY = "C07"
RULE = (
    "Cases cycle through every invertible model (7 elementary linear transforms, 5 linear composites, SVF, SVFFD, "
    "sequential composites of them, GenericSpatialTransform) x parameter kind (optimisable parameter, fixed tensor, "
    "callable) x inverse(link, update_buffers) in all four flag combinations plus the .inv shortcut x groups {1, N}. "
    "Each case is a recorded history: build -> inv(t(x)) = x and t(inv(x)) = x -> change the forward parameters "
    "(in-place optimiser-style step, data_() replacement, new callable output) -> optionally call the forward "
    "transform -> check both compositions again. Linear models: tolerance 1e-4 cube units; velocity models on "
    "smooth fields of amplitude a samples: 0.35 a^2 + 0.09 a samples. Non-trivial: every case (random non-identity "
    "parameters); distinct = hash of class, kind, flags, change kind and values."
)
ASSUMPTIONS = [
    "transforms are always evaluated through __call__ so that the documented update hook runs",
    "velocity-model bound calibrated in C11 (exp(v) o exp(-v)); same scaling-and-squaring code path",
]
ANCHORS = [
    ("deepali.spatial.parametric", "InvertibleParametricTransform.inverse"),
    ("deepali.spatial.parametric", "ParametricTransform.link_"),
    ("deepali.spatial.base", "SpatialTransform.__copy__"),
    ("deepali.spatial.composite", "SequentialTransform.inverse"),
    ("deepali.spatial.generic", "GenericSpatialTransform.inverse"),
    ("deepali.spatial.nonrigid", "StationaryVelocityFieldTransform.inverse"),
    ("deepali.spatial.bspline", "StationaryVelocityFreeFormDeformation.inverse"),
    ("deepali.modules.flow", "ExpFlow.inverse"),
    ("deepali.spatial.linear", "Translation.tensor"),
    ("deepali.spatial.linear", "EulerRotation.tensor"),
    ("deepali.spatial.linear", "QuaternionRotation.tensor"),
    ("deepali.spatial.linear", "IsotropicScaling.tensor"),
    ("deepali.spatial.linear", "AnisotropicScaling.tensor"),
    ("deepali.spatial.linear", "Shearing.tensor"),
    ("deepali.spatial.linear", "HomogeneousTransform.tensor"),
]
FLAGS = [(False, False), (False, True), (True, False), (True, True), "inv"]
CHANGES = ["inplace", "data_", "callable"]
MODELS = X.INVERTIBLE + ["Sequential", "Generic"]
N_CASES = {"quick": len(MODELS) * 3 * 5, "thorough": len(MODELS) * 3 * 5 * 96}
BUDGET = {"quick": 600, "thorough": 5400}


def plan(tier, seed):
    return [["case", i] for i in range(N_CASES[tier])]


def mandatory(tier):
    out = [f"model/{m}" for m in MODELS] + [f"kind/{k}" for k in X.KINDS]
    out += [f"flags/{f}" for f in ["link=False,update=False", "link=False,update=True", "link=True,update=False", "link=True,update=True", "inv"]]
    out += [f"change/{c}" for c in CHANGES] + ["before_change", "after_change", "updated_buffers_forward", "non_identity", "inverse/grid_flag", "velocity/scale_option", "euler/order_option"] + [f"pair/{a}>{b}" for a in ("Translation", "AnisotropicScaling", "HomogeneousTransform") for b in ("Translation", "AnisotropicScaling", "HomogeneousTransform")] + [f"euler_order/{o}" for o in ("XYZ", "XZY", "YXZ", "YZX", "ZXY", "ZYX", "XYX", "XZX", "YXY", "YZY", "ZXZ", "ZYZ")]
    return out


def flag_name(f):
    return "inv" if f == "inv" else f"link={f[0]},update={f[1]}"


def leaves(t):
    r"""Elementary parametric members of a (composite) transform."""
    from deepali.spatial import CompositeTransform

    if isinstance(t, CompositeTransform):
        out = []
        for m in t.transforms():
            out += leaves(m)
        return out
    return [t]


def run_item(ctx, item):
    import torch
    from deepali import spatial as S

    i = item[1]
    rng = ctx.rng()
    model = MODELS[i % len(MODELS)]
    kind = X.KINDS[(i // len(MODELS)) % 3]
    flags = FLAGS[(i // (len(MODELS) * 3)) % 5]
    rest = i // (len(MODELS) * 15)
    G = 2 if rest % 2 else 1
    D = 3 if (model in X.ONLY_3D or (i + rest) % 3 == 0) else 2
    gp = gen.rand_grid_params(rng, D, max_size=16 if D == 2 else 9, min_size=8 if D == 2 else 7, big_offset=False, align_corners=True if "FreeForm" in model or model in ("Sequential", "Generic") else None)
    g = gen.make_grid(gp)
    ctx.bucket(f"model/{model}")
    ctx.bucket(f"kind/{kind}")
    ctx.bucket(f"flags/{flag_name(flags)}")
    info = dict(model=model, kind=kind, flags=flag_name(flags), groups=G, D=D)
    history = []
    boxes = {}
    amp = 0.5
    with ctx.guard("build", key=f"exc/build/{model}/{kind}", **info):
        if model == "Sequential":
            names = [str(n) for n in rng.choice([n for n in X.INVERTIBLE if D == 3 or n not in X.ONLY_3D], size=int(rng.integers(2, 4)))]
            members = []
            for n in names:
                m, minfo = X.make(rng, n, g, groups=G, kind=kind, amplitude=amp)
                members.append(m)
                boxes.update({f"{len(members)}/{k}": b for k, b in minfo["boxes"].items()})
            t = S.SequentialTransform(*members)
            info["members"] = names
        elif model == "Generic":
            cfg = S.TransformConfig(transform=str(rng.choice(["Affine o SVF", "SVF o Affine", "Affine", "SVFFD o Affine"])), affine_model=str(rng.choice(["TRS", "TKRS", "A", "RT"] + (["QT"] if D == 3 else []))), rotation_model="ZXZ", control_point_spacing=1, scaling_and_squaring_steps=5)
            if kind == "callable" and "K" not in cfg.affine_model and rng.integers(0, 2):
                # predicted parameters given for (..., x) coordinate order: converted on every update of the transform
                cfg.flip_grid_coords = True
                ctx.bucket("generic/flip_grid_coords")
            info["config"] = [cfg.transform, cfg.affine_model, "flip" if cfg.flip_grid_coords else "noflip"]
            if kind == "callable":
                t0 = S.GenericSpatialTransform(g, params=False, config=cfg)
                vals = {}
                for n_, child in t0.named_transforms():
                    cname = type(child).__name__
                    v_ = X.nonrigid_values(rng, cname, child, 1, amp) if n_ == "nonrigid" else X.natural_values(rng, cname, D, 1, g)
                    vals[n_] = torch.tensor(v_, dtype=torch.float32)
                box = X.Box(vals)
                boxes["generic"] = box
                t = S.GenericSpatialTransform(g, params=box, config=cfg)
            else:
                t = S.GenericSpatialTransform(g, params=(kind == "parameter"), config=cfg)
                for n_, child in t.named_transforms():
                    cname = type(child).__name__
                    if n_ == "nonrigid":
                        child.data_(torch.tensor(X.nonrigid_values(rng, cname, child, 1, amp), dtype=torch.float32))
                    else:
                        child.data_(torch.tensor(X.to_raw(cname, X.natural_values(rng, cname, D, 1, g), kind == "parameter"), dtype=torch.float32))
            G = 1
        else:
            opts = {}
            if "Velocity" in model and rng.integers(0, 2):
                opts["scale"] = float(rng.choice([0.5, 1.5, -0.75]))  # constant factor of the velocity field
                ctx.bucket("velocity/scale_option")
            if model == "EulerRotation" and D == 3:
                opts["order"] = str(rng.choice(["XYZ", "XZY", "YXZ", "YZX", "ZXY", "ZYX", "XYX", "XZX", "YXY", "YZY", "ZXZ", "ZYZ"]))
                ctx.bucket("euler/order_option")
            info.update(opts)
            t, tinfo = X.make(rng, model, g, groups=G, kind=kind, amplitude=amp, **opts)
            amp = amp * max(1.0, abs(opts.get("scale", 1.0)))  # the bound below is in terms of the displacement amplitude
            boxes.update(tinfo["boxes"])
        history.append("build")
    ctx.nontriv(info, gp, i)
    if i < 3:
        ctx.sample({"case": info, "grid": gp})
    velocity = any("Velocity" in type(m).__name__ for m in leaves(t))
    n = np.array([float(k) for k in g.size()])
    unit = float((2.0 / (n - 1 if g.align_corners() else n)).max())
    tol = (0.35 * amp * amp + 0.09 * amp) * unit * 2 if velocity else 1e-4
    x = torch.tensor(rng.uniform(-0.6, 0.6, size=(1, 13, D)), dtype=torch.float32)

    def check(stage, inv):
        ready = stage == "before_change" and (flags == "inv" or flags[1])
        with torch.no_grad():
            y = t(x)
            back_f = di = None
            if ready:  # before the first __call__ of the inverse: its pre-forward hook would recompute the buffers
                with ctx.guard("inverse(update_buffers=True).forward()", key=f"exc/inverse_ready/{info['model']}[{kind}]", history=list(history), **info):
                    back_f = inv.forward(y)
                    di = None if inv.linear else inv.disp().numpy()
            back = inv(y)
            fwd = t(inv(x))
            y_again = t(x)
            inv2 = inv.inverse() if hasattr(inv, "inverse") else None
            y_inv2 = inv2(x) if inv2 is not None else None
        xb = np.broadcast_to(x.numpy(), back.shape)
        ctx.bucket(stage)
        # evaluating a transform or its inverse leaves both as they were: the same call gives the same result again
        ctx.close("forward_map_unchanged_by_evaluations", y_again, y.numpy(), 0.0, key=f"inverse/{stage}/repeat", stage=stage, history=list(history), **info)
        if y_inv2 is not None:
            # the inverse of the inverse is the transform
            ctx.close("inverse_of_inverse_is_the_transform", y_inv2, y.numpy(), tol if velocity else 1e-5, key=f"inverse/{stage}/double_inverse", stage=stage, history=list(history), **info)
        moved = float((y - x).abs().max())
        if moved > 1e-4:  # generator sanity (see C06): counted, never judged
            ctx.bucket("non_identity")
        else:
            ctx.count("near_identity_cases")
        ctx.close("inverse_after_forward_is_identity", back, xb, tol, key=f"inverse/{stage}/{'velocity' if velocity else 'linear'}", stage=stage, history=list(history), moved=moved, **info)
        ctx.close("forward_after_inverse_is_identity", fwd, xb, tol, key=f"inverse/{stage}/{'velocity' if velocity else 'linear'}", stage=stage, history=list(history), moved=moved, **info)
        # the inverse evaluated at its own grid points with the grid flag is the same map (for a composite only the
        # first member sees undeformed grid points)
        with ctx.guard("inverse(grid=True)", key=f"exc/inverse_grid_flag/{info['model']}", stage=stage, history=list(history), **info), torch.no_grad():
            xg = g.coords().unsqueeze(0)
            ctx.close("inverse_grid_flag_equals_point_map", inv(xg, grid=True), inv(xg).numpy(), 1e-4, key=f"inverse/grid_flag/{'velocity' if velocity else 'linear'}", stage=stage, history=list(history), **info)
            ctx.bucket("inverse/grid_flag")
        if ready and back_f is not None:
            # update_buffers=True promises an inverse that is ready to use: forward() / disp() without the call hook
            ctx.bucket("updated_buffers_forward")
            ctx.close("inverse_with_updated_buffers_is_ready_without_call_hook", back_f, xb, tol, key=f"inverse/updated_buffers/{'velocity' if velocity else 'linear'}", stage=stage, history=list(history), **info)
            if di is not None:
                with torch.no_grad():
                    xg = g.coords().unsqueeze(0)
                    ui = np.moveaxis((inv(xg) - xg).numpy(), -1, 1)
                ctx.close("inverse_disp_with_updated_buffers_equals_its_point_map", di, ui, tol, key=f"inverse/updated_buffers/{'velocity' if velocity else 'linear'}", stage=stage, history=list(history), **info)

    if model == "Sequential":
        # every ordered pair of operand forms of the matrix composition (translation vector, square matrix, D x (D+1)
        # matrix) with optimisable and with fixed-tensor parameters: composing, evaluating and inverting repeatedly
        # leaves the members as they were, and the inverse inverts
        forms = ["Translation", "AnisotropicScaling", "HomogeneousTransform"]
        for fa, fb in itertools.product(forms, forms):
            for pk in ("buffer", "parameter"):
                with ctx.guard("pair", key=f"exc/pair/{fa}>{fb}/{pk}", **info), torch.no_grad():
                    ma, _ = X.make(rng, fa, g, groups=1, kind=pk, amplitude=amp)
                    mb, _ = X.make(rng, fb, g, groups=1, kind=pk, amplitude=amp)
                    seq = S.SequentialTransform(ma, mb)
                    before = [m.params.detach().clone() for m in (ma, mb)]
                    y1 = seq(x)
                    T1 = seq.tensor().clone()
                    sinv = seq.inverse()
                    back = sinv(y1)
                    y2 = seq(x)
                    T2 = seq.tensor().clone()
                    ctx.bucket(f"pair/{fa}>{fb}")
                    ctx.true("pair_members_unchanged_by_evaluation", all(bool(torch.equal(m.params.detach(), b0)) for m, b0 in zip((ma, mb), before)), key=f"pair/mutated/{fa}>{fb}", kind=pk)
                    ctx.close("pair_second_evaluation_equals_first", y2, y1.numpy(), 0.0, key=f"pair/repeat/{fa}>{fb}", kind=pk)
                    ctx.close("pair_tensor_repeatable", T2, T1.numpy(), 0.0, key=f"pair/repeat/{fa}>{fb}", kind=pk)
                    ctx.close("pair_inverse_inverts", back, np.broadcast_to(x.numpy(), back.shape), 1e-4, key=f"pair/inverse/{fa}>{fb}", kind=pk)
    if model == "EulerRotation":
        # every order string: the matrix is a proper rotation and the inverse view inverts it
        g3 = g if D == 3 else gen.make_grid(gen.rand_grid_params(rng, 3, max_size=7, min_size=5, big_offset=False))
        x3 = torch.tensor(rng.uniform(-0.6, 0.6, size=(1, 7, 3)), dtype=torch.float32)
        for order in ("XYZ", "XZY", "YXZ", "YZX", "ZXY", "ZYX", "XYX", "XZX", "YXY", "YZY", "ZXZ", "ZYZ"):
            for spelling in (order, order.lower(), " o ".join(f"R{c.lower()}" for c in order)):
                with ctx.guard("EulerRotation(order)", key=f"exc/euler_order/{order}", spelling=spelling, **info), torch.no_grad():
                    ang = torch.tensor(rng.uniform(-2.5, 2.5, size=(1, 3)), dtype=torch.float32)
                    te = S.EulerRotation(g3, params=False, order=spelling)
                    te.angles_(ang)
                    R = te.tensor()[0, :3, :3].double().numpy()
                    ctx.close("euler_matrix_is_orthonormal", R @ R.T, np.eye(3), 2e-6, key=f"euler_order/{order}", spelling=spelling)
                    ctx.close("euler_matrix_is_proper", np.linalg.det(R), 1.0, 2e-6, key=f"euler_order/{order}", spelling=spelling)
                    ie = te.inverse()
                    b3 = ie(te(x3))
                    ctx.close("euler_inverse_inverts_for_every_order", b3, np.broadcast_to(x3.numpy(), b3.shape), 1e-5, key=f"euler_order/{order}", spelling=spelling)
            ctx.bucket(f"euler_order/{order}")
    inv = None
    with ctx.guard("inverse", key=f"exc/inverse/{flag_name(flags)}/{kind}", history=history, **info):
        if flags == "inv":
            inv = t.inv
        else:
            inv = t.inverse(link=flags[0], update_buffers=flags[1])
        history.append(f"inverse({flag_name(flags)})")
        ctx.true("inverse_is_a_new_object", inv is not t, key="inverse/object", **info)
        check("before_change", inv)
    if inv is None:
        return
    # ---------------- change the forward parameters, then check again
    change = CHANGES[(i + rest) % 3]
    if kind == "callable":
        change = "callable"
    elif change == "callable":
        change = "inplace"
    ctx.bucket(f"change/{change}")
    linked = flags == "inv" or flags[0]
    with ctx.guard("change", key=f"exc/change/{change}", history=history, **info):
        if change == "callable":
            for key, box in boxes.items():
                if isinstance(box.value, dict):
                    box.value = {k: (v * 0.5 if k != "quaternion" else torch.nn.functional.normalize(v + 0.1, dim=-1)) if k not in ("scaling", "affine") else v for k, v in box.value.items()}
                else:
                    v = box.value
                    box.value = v * 0.5 if not _is_multiplicative(key, t, v) else v
            history.append("callable:new_output")
        elif change == "inplace":
            with torch.no_grad():
                for m in leaves(t):
                    p = m.params
                    if isinstance(p, torch.Tensor):
                        p.add_(torch.randn_like(p) * 0.02 * (float(p.abs().mean()) + 0.1))
            history.append("inplace_step")
        else:
            for m in leaves(t):
                p = m.params
                if isinstance(p, torch.Tensor):
                    new = p.detach().clone() + torch.randn_like(p) * 0.02 * (float(p.abs().mean()) + 0.1)
                    m.data_(new)
            history.append("data_")
        if (i // 7) % 2:
            with torch.no_grad():
                t(x)
            history.append("forward_call")
    key_after = f"inverse/after_change/{change}/{'linked' if linked else 'unlinked'}/{kind}"
    with ctx.guard("after_change", key=f"exc/after_change/{change}", history=history, **info):
        with torch.no_grad():
            y = t(x)
            back = inv(y)
            fwd = t(inv(x))
        xb = np.broadcast_to(x.numpy(), back.shape)
        ctx.bucket("after_change")
        ctx.close("inverse_follows_parameter_change", back, xb, tol, key=key_after, history=list(history), **info)
        ctx.close("forward_after_inverse_follows_parameter_change", fwd, xb, tol, key=key_after, history=list(history), **info)
    ctx.sample({"history": history, "case": info}) if i in (3, 4) else None


def _is_multiplicative(key, t, v):
    r"""Scaling factors / homogeneous matrices must not be halved (would not stay in their documented range)."""
    name = type(t).__name__
    if "Scaling" in name or "Homogeneous" in name or "Quaternion" in name:
        return True
    return "scaling" in key or "rotation" in key and v.shape[-1] == 4
