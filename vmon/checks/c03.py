r"""C03 — derived grids (resize, pyramid, crop, pad, pool) keep their place in the world."""

from __future__ import annotations

import numpy as np

from .. import gen
from ..monitor.gridpost import GridPost, attrs

PROPERTY = "C03"
RULE = (
    "Each case draws a random oriented grid (D in {2,3}, either align_corners) and calls every derivation "
    "method (resize, reshape, resample, downsample, upsample, pyramid, crop, pad, center_crop, center_pad, "
    "narrow, region_of_interest, pool/avg_pool, Cube.grid) with random valid arguments in every accepted "
    "argument form, then a chain of up to 3 random derivations; float64 postconditions derived from the "
    "arguments' documented meaning are installed as contracts on the real Grid methods and evaluated on "
    "every (also nested) call. Non-trivial: rotated/anisotropic/off-centre grid; distinct = hash of the grid "
    "parameters and operation arguments."
)
ASSUMPTIONS = [
    "postconditions are evaluated in float64 from the attributes the grids store; tolerance 64*eps32*(|center|+extent)",
    "an exception raised by a derivation on a valid grid/argument is reported as a violation (statement: 'succeed for every valid grid')",
    "center_crop/center_pad: any integer offset between floor and ceil of the half difference counts as centred",
]
ANCHORS = [
    ("deepali.core.grid", "Grid._resize"),
    ("deepali.core.grid", "Grid.resize"),
    ("deepali.core.grid", "Grid.reshape"),
    ("deepali.core.grid", "Grid.resample"),
    ("deepali.core.grid", "Grid.downsample"),
    ("deepali.core.grid", "Grid.upsample"),
    ("deepali.core.grid", "Grid.pyramid"),
    ("deepali.core.grid", "Grid.crop"),
    ("deepali.core.grid", "Grid.pad"),
    ("deepali.core.grid", "Grid.center_crop"),
    ("deepali.core.grid", "Grid.center_pad"),
    ("deepali.core.grid", "Grid.narrow"),
    ("deepali.core.grid", "Grid.region_of_interest"),
    ("deepali.core.grid", "Grid.pool"),
    ("deepali.core.cube", "Cube.grid"),
]
N_CASES = {"quick": 400, "thorough": 20000}
BUDGET = {"quick": 300, "thorough": 3000}

OPS = [
    "resize", "reshape", "resample", "downsample", "upsample", "pyramid", "crop", "pad", "center_crop",
    "center_pad", "narrow", "region_of_interest", "pool", "cube_grid", "down_up", "down_chain", "copies",
]

_state = {"ctx": None, "post": None}


def plan(tier, seed):
    # thorough only: the repository's own tests under the postconditions (they reach the derivation methods ten times)
    return [["case", i] for i in range(N_CASES[tier])] + ([["pytest"]] if tier == "thorough" else [])


def mandatory(tier):
    return [f"op/{o}" for o in OPS] + ["chain", "down_chain_levels>=2", "cube_grid/spacing", "copies/fractional_internal_size", "resize_to_reported/fractional_internal_size"] + (["pytest"] if tier == "thorough" else [])


def setup(ctx):
    _state["ctx"] = ctx
    _state["post"] = GridPost(lambda: _state["ctx"]).install()


def teardown(ctx):
    post = _state["post"]
    if post is not None:
        for name, c in post.counters().items():
            ctx.count(f"contract_evaluations/{name}", c["evaluations"])
            if c["post_errors"]:
                ctx.inconclusive.append(f"postcondition of {name} raised {c['post_errors']}x: {c['last_post_error']}")
        post.uninstall()


def rand_op(rng, g, name):
    r"""Random valid arguments for derivation ``name`` of grid ``g``; returns (callable, description)."""
    import torch

    D = g.ndim
    n = [int(k) for k in g.size()]
    form = int(rng.integers(0, 3))

    def ints(vals):
        vals = [int(v) for v in vals]
        if form == 0:
            return (tuple(vals),), "tuple"
        if form == 1:
            return tuple(vals), "args"
        return (torch.tensor(vals),), "tensor"

    ac = [None, True, False][int(rng.integers(0, 3))]
    if name == "resize":
        size = [int(rng.integers(2, 2 * k + 3)) for k in n]
        a, f = ints(size)
        return (lambda: g.resize(*a, align_corners=ac)), dict(op=name, size=size, form=f, align_corners=ac)
    if name == "reshape":
        shape = [int(rng.integers(2, 2 * k + 3)) for k in n][::-1]
        a, f = ints(shape)
        return (lambda: g.reshape(*a, align_corners=ac)), dict(op=name, shape=shape, form=f, align_corners=ac)
    if name == "resample":
        kind = int(rng.integers(0, 4))
        s = g.spacing().double().numpy()
        if kind == 0:
            sp = str(rng.choice(["min", "max"]))
            return (lambda: g.resample(sp)), dict(op=name, spacing=sp)
        if kind == 1:
            sp = float(gen.f32(rng.choice([0.5, 1.0, 1.5, 2.0, 0.8]) * s.min()))
            return (lambda: g.resample(sp)), dict(op=name, spacing=sp)
        sp = [float(x) for x in gen.f32(s * rng.choice([0.5, 1.0, 2.0, 1.3, 0.7], size=D))]
        if kind == 2:
            return (lambda: g.resample(tuple(sp))), dict(op=name, spacing=sp, form="tuple")
        return (lambda: g.resample(*sp)), dict(op=name, spacing=sp, form="args")
    if name in ("downsample", "upsample", "down_up", "down_chain", "copies"):
        internal = g._size.double().numpy()
        max_l = int(np.floor(np.log2(max(internal.min(), 2) / 2))) if internal.min() >= 2 else 0
        if name == "upsample":
            levels = int(rng.integers(1, 3)) if max(n) <= 40 else 1
            dims = None if rng.integers(0, 2) else sorted(rng.choice(D, size=int(rng.integers(1, D + 1)), replace=False).tolist())
            return (lambda: g.upsample(levels, dims=dims, align_corners=ac)), dict(op=name, levels=levels, dims=dims, align_corners=ac)
        levels = int(rng.integers(1, max_l + 1)) if max_l >= 1 else 0
        if name == "down_chain":
            # level by level equals all levels at once, and the whole chain is undone by one upsample: the
            # fractional internal size has to survive every intermediate level
            total = min(max_l, int(rng.integers(2, 4)))

            def fchain():
                ctx = _state["ctx"]
                if total < 2:
                    ctx.count("down_chain_too_small")
                    return g
                ctx.bucket("down_chain_levels>=2")
                d = g
                for _ in range(total):
                    d = d.downsample(1)
                once = g.downsample(total)
                ctx.true("downsample_level_by_level_equals_at_once", d == once and list(d.size()) == list(once.size()), levels=total, got=repr(d), want=repr(once))
                u = d.upsample(total)
                ctx.true("downsample_chain_then_upsample_returns_original", u == g and list(u.size()) == list(g.size()), levels=total, got=repr(u), want=repr(g))
                return u
            return fchain, dict(op=name, levels=total)
        if name == "copies":
            # a copy taken in the middle of a chain (clone, deepcopy, pickle, other-flag copy) behaves like the grid it
            # was taken from: the fractional internal size and the flag travel with it, and the source keeps its own
            def fcopies():
                import copy as pycopy
                import pickle

                ctx = _state["ctx"]
                d = g.downsample(1) if levels >= 1 else g
                want = d.upsample(1) if levels >= 1 else d.resize(tuple(int(k) + 1 for k in d.size()))
                for how, c in (("clone", d.clone()), ("deepcopy", pycopy.deepcopy(d)), ("copy", pycopy.copy(d)), ("pickle", pickle.loads(pickle.dumps(d)))):
                    got = c.upsample(1) if levels >= 1 else c.resize(tuple(int(k) + 1 for k in c.size()))
                    ctx.true("copy_of_grid_derives_like_its_source", got == want and list(got.size()) == list(want.size()) and got.align_corners() == want.align_corners(), how=how, got=repr(got), want=repr(want))
                flipped = d.align_corners(not d.align_corners())
                ctx.true("other_flag_copy_has_the_flag_and_the_lattice", flipped.align_corners() != d.align_corners() and flipped == d and list(flipped.size()) == list(d.size()), got=repr(flipped), want=repr(d))
                again = d.upsample(1) if levels >= 1 else d.resize(tuple(int(k) + 1 for k in d.size()))
                ctx.true("source_grid_derives_the_same_after_copies_were_taken", again == want and again.align_corners() == want.align_corners() and d.cube() == (g.downsample(1) if levels >= 1 else g).cube(), got=repr(again), want=repr(want))
                if bool((d._size != d._size.round()).any()):
                    ctx.bucket("copies/fractional_internal_size")
                return again
            return fcopies, dict(op=name, levels=min(levels, 1))
        if name == "down_up":
            def f():
                if levels == 0:
                    return g
                d = g.downsample(levels)
                u = d.upsample(levels)
                ctx = _state["ctx"]
                ctx.true("downsample_then_upsample_returns_original", u == g and list(u.size()) == list(g.size()), levels=levels, got=repr(u), want=repr(g))
                n0, s0, c0, R0, o0 = attrs(g)
                n1, s1, c1, R1, o1 = attrs(u)
                ctx.close("downsample_then_upsample_spacing", s1, s0, 64 * 1.2e-7 * s0, levels=levels)
                # an explicit resize to the size a grid already reports is still a resize: the result has exactly that many
                # samples internally too (no fractional remainder of the downsampling), so what is derived from it next equals
                # what is derived from the same resize of the integer-sized source grid
                m = tuple(int(k) for k in d.size())
                r, r0 = d.resize(m), g.resize(m)
                ctx.true("resize_to_reported_size_equals_resize_of_source", r == r0 and list(r.size()) == list(m), levels=levels, got=repr(r), want=repr(r0))
                ru, r0u = r.upsample(1), r0.upsample(1)
                ctx.true("derivation_after_resize_to_reported_size", ru == r0u and list(ru.size()) == list(r0u.size()), levels=levels, got=repr(ru), want=repr(r0u))
                if bool((d._size != d._size.round()).any()):
                    ctx.bucket("resize_to_reported/fractional_internal_size")
                return u
            return f, dict(op=name, levels=levels)
        dims = None if rng.integers(0, 2) else sorted(rng.choice(D, size=int(rng.integers(1, D + 1)), replace=False).tolist())
        min_size = int(rng.choice([1, 1, 2, 4]))
        if rng.integers(0, 8) == 0:
            levels = -1
        return (lambda: g.downsample(levels, dims=dims, min_size=min_size, align_corners=ac)), dict(op=name, levels=levels, dims=dims, min_size=min_size, align_corners=ac)
    if name == "pyramid":
        max_l = int(np.floor(np.log2(max(min(n), 2) / 2)))
        levels = int(rng.integers(1, max(max_l, 1) + 1))
        min_size = int(rng.choice([0, 0, 2, 4, 8]))
        dims = None if rng.integers(0, 3) else sorted(rng.choice(D, size=int(rng.integers(1, D + 1)), replace=False).tolist())
        return (lambda: g.pyramid(levels, dims=dims, min_size=min_size)), dict(op=name, levels=levels, dims=dims, min_size=min_size)
    if name in ("crop", "pad"):
        sign = 1 if name == "crop" else -1
        kind = int(rng.integers(0, 5))
        meth = getattr(g, name)
        if kind == 0:  # scalar margin, keep size >= 2
            m = int(rng.integers(-3, 4))
            if sign * m > 0:
                m = sign * min(abs(m), max((min(n) - 2) // 2, 0))
            return (lambda: meth(margin=m)), dict(op=name, margin=m)
        if kind in (1, 2):  # per-axis margin
            ms = []
            for k in n:
                m = int(rng.integers(-3, 4))
                if sign * m > 0:
                    m = sign * min(abs(m), max((k - 2) // 2, 0))
                ms.append(m)
            if kind == 1:
                return (lambda: meth(margin=tuple(ms))), dict(op=name, margin=ms)
            return (lambda: meth(*ms)), dict(op=name, margin=ms, form="args")
        # num: per border (x0, x1, y0, y1, ...), possibly shorter than 2*D
        num = []
        for k in n:
            a_, b_ = int(rng.integers(-3, 4)), int(rng.integers(-3, 4))
            rem = sign * a_ + sign * b_
            if k - rem < 2:
                a_, b_ = 0, 0
            num += [a_, b_]
        if kind == 4 and D == 3:
            num = num[:4]
        return (lambda: meth(num=tuple(num))), dict(op=name, num=num)
    if name in ("center_crop", "center_pad"):
        if name == "center_crop":
            size = [int(rng.integers(2, k + 3)) for k in n]
        else:
            size = [int(rng.integers(max(k - 2, 1), k + 6)) for k in n]
        a, f = ints(size)
        meth = getattr(g, name)
        return (lambda: meth(*a)), dict(op=name, size=size, form=f)
    if name == "narrow":
        dim = int(rng.integers(0, D))
        start = int(rng.integers(0, n[dim] - 1))
        length = int(rng.integers(1, n[dim] - start + 1))
        return (lambda: g.narrow(dim, start, length)), dict(op=name, dim=dim, start=start, length=length)
    if name == "region_of_interest":
        if rng.integers(0, 3) == 0:
            start = int(rng.integers(0, max(min(n) - 2, 1)))
            size = int(rng.integers(2, max(min(n) - start, 2) + 1))
            return (lambda: g.region_of_interest(start, size)), dict(op=name, start=start, size=size)
        start = [int(rng.integers(-2, k - 1)) for k in n]
        size = [int(rng.integers(2, k + 3)) for k in n]
        return (lambda: g.region_of_interest(tuple(start), tuple(size))), dict(op=name, start=start, size=size)
    if name == "pool":
        if rng.integers(0, 2):
            ks = int(rng.integers(1, max(min(n) // 2, 1) + 1))
        else:
            ks = tuple(int(rng.integers(1, max(k // 2, 1) + 1)) for k in n)
        ceil_mode = bool(rng.integers(0, 2))
        if rng.integers(0, 2):
            return (lambda: g.pool(ks, ceil_mode=ceil_mode)), dict(op=name, kernel_size=ks, ceil_mode=ceil_mode)
        return (lambda: g.avg_pool(ks, ceil_mode=ceil_mode)), dict(op="avg_pool", kernel_size=ks, ceil_mode=ceil_mode)
    if name == "cube_grid":
        cube = g.cube()
        acg = bool(rng.integers(0, 2))
        kind = int(rng.integers(0, 4))
        size = [int(rng.integers(2, 2 * k + 2)) for k in n]
        if kind == 3:
            # spacing that divides the extent into a whole number of cells (up to float32 rounding of the ratio)
            import torch

            cells = np.array([int(rng.integers(2, 2 * k + 2)) for k in n], dtype=np.float64)
            sp = (cube.extent().double() / torch.tensor(cells)).float()

            def by_spacing():
                r = cube.grid(spacing=sp, align_corners=acg)
                ctx = _state["ctx"]
                ctx.bucket("cube_grid/spacing")
                want = [int(c) + (1 if acg else 0) for c in cells]
                ctx.true("Cube.grid(spacing):size", [int(k) for k in r.size()] == want, got=[int(k) for k in r.size()], want=want, spacing=sp.tolist(), align_corners=acg)
                ctx.close("Cube.grid(spacing):spacing", r.spacing(), sp.double().numpy(), 8 * 1.2e-7 * sp.double().numpy(), align_corners=acg)
                return r

            return by_spacing, dict(op=name, cells=cells.tolist(), align_corners=acg)
        if kind == 0:
            return (lambda: cube.grid(size=tuple(size), align_corners=acg)), dict(op=name, size=size, align_corners=acg)
        if kind == 1:
            return (lambda: cube.grid(shape=tuple(size[::-1]), align_corners=acg)), dict(op=name, shape=size[::-1], align_corners=acg)

        def same():
            r = cube.grid(size=g.size(), align_corners=g.align_corners())
            ctx = _state["ctx"]
            ctx.true("Cube.grid_reproduces_grid", r == g and r.cube() == cube, got=repr(r), want=repr(g))
            return r

        return same, dict(op=name, size="same")
    raise ValueError(name)


CHAIN_OPS = [o for o in OPS if o not in ("cube_grid", "down_up", "down_chain")]


def pytest_item(ctx):
    r"""The repository's own tests run with the same postconditions installed (vmon.pytest_plugin)."""
    import json
    import os
    import subprocess
    import sys
    import tempfile

    here = os.path.dirname(os.path.dirname(os.path.dirname(os.path.abspath(__file__))))
    src = os.path.abspath(os.environ.get("VMON_REPO_SRC", "/repo/src"))
    repo = os.path.dirname(src)
    with tempfile.TemporaryDirectory(prefix="vmon-c03-") as tmp:
        out = os.path.join(tmp, "events.json")
        env = dict(os.environ, VMON_PLUGIN_OUT=out, VMON_PLUGIN_GRIDPOST="1", PYTHONPATH=os.pathsep.join([here, src]))
        try:
            r = subprocess.run([sys.executable, "-m", "pytest", "-q", "-p", "no:cacheprovider", "-p", "vmon.pytest_plugin", os.path.join(repo, "tests")], cwd=repo, env=env, capture_output=True, text=True, timeout=900)
        except subprocess.TimeoutExpired:
            ctx.inconclusive.append("pytest under the grid postconditions timed out")
            return
        if not os.path.exists(out):
            ctx.inconclusive.append("pytest plugin wrote no event file: " + (r.stdout + r.stderr)[-500:])
            return
        ev = json.load(open(out)).get("gridpost", {})
    n = int(ev.get("evaluations", 0))
    ctx.bucket("pytest", n)
    ctx.evaluations += n
    ctx.count("pytest_postcondition_evaluations", n)
    ctx.notes["pytest_contract_calls"] = {k: v["evaluations"] for k, v in ev.get("contracts", {}).items() if v["evaluations"]}
    ctx.notes["pytest_summary"] = (r.stdout.strip().splitlines() or [""])[-1][:200]
    for v in ev.get("violations", []):
        ctx.violation(v["check"], "pytest/" + v["key"], via="repository tests", test=v.get("item"), **v.get("info", {}))
    if "passed" not in ctx.notes["pytest_summary"]:
        ctx.inconclusive.append("repository tests did not pass under the postconditions: " + ctx.notes["pytest_summary"])


def run_item(ctx, item):
    if item[0] == "pytest":
        return pytest_item(ctx)
    rng = ctx.rng()
    D = int(rng.choice([2, 3]))
    max_size = 40 if D == 2 else 20
    if ctx.tier == "thorough" and rng.integers(0, 10) == 0:
        max_size = 257 if D == 2 else 64
    p = gen.rand_grid_params(rng, D, max_size=max_size)
    with ctx.guard("Grid()", params=p):
        g = gen.make_grid(p)
    if gen.grid_nontrivial(p):
        ctx.nontriv(p)
    ctx.sample({"grid": p})
    for name in OPS:
        f, desc = rand_op(rng, g, name)
        ctx.bucket(f"op/{name}")
        with ctx.guard(f"Grid.{desc['op']}", grid=p, call=desc):
            f()
    # chains of up to three derivations
    for c in range(2):
        cur = g
        calls = []
        length = int(rng.integers(2, 4))
        with ctx.guard("chain", grid=p, calls=calls):
            for _ in range(length):
                name = str(rng.choice(CHAIN_OPS))
                if min(int(k) for k in cur.size()) < 2:
                    break
                f, desc = rand_op(rng, cur, name)
                calls.append(desc)
                r = f()
                if isinstance(r, dict):
                    r = r[int(rng.integers(0, len(r)))]
                cur = r
            ctx.bucket("chain")
            ctx.count("chain_steps", len(calls))
            ctx.nontriv(p, calls)
        if c == 0:
            ctx.sample({"chain": calls})
