r"""C11 — scaling-and-squaring equals the closed form for affine velocity fields."""

from __future__ import annotations

import numpy as np

from ..oracle import fields as F

PROPERTY = "C11"
RULE = (
    "Each case draws a grid shape (D in {2,3}, sizes 2..24, non-square), an align_corners flag, a dtype "
    "(float32/float64), a batch of 1..3 affine generators H (weighted diagonally dominant, negative diagonal, so the "
    "sample hull is invariant) and evaluates expv for every steps k in 0..8 against ((I+H/2^k)^(2^k) - I) x computed "
    "with numpy matrix powers, the scaled / inverse / negated variants against each other, convergence to "
    "scipy.linalg.expm, the ExpFlow module and the u buffers of SVF and SVFFD transforms; for smooth band-limited "
    "fields exp(v) o exp(-v) is composed by an independent scipy linear interpolator and bounded by C a^2 with an "
    "order test. Non-trivial: every case (random generator with off-diagonal terms and offset); distinct = hash of "
    "shape, flag, dtype and generators."
)
ASSUMPTIONS = [
    "linear interpolation reproduces affine fields exactly inside the sample hull, so every squaring step is exact up to rounding",
    "tolerances in normalised units: float64 1e-10, float32 3e-5 (largest error measured on the unchanged tree 6e-6)",
    "smooth-field bound 0.35 a^2 + 0.09 a samples (5x the worst values 0.026 / 0.0088 measured for a = 0.5 / 0.25 on seeds 0..3), order test: error ratio >= 1.6 when halving a",
]
ANCHORS = [
    ("deepali.core.flow", "expv"),
    ("deepali.core.flow", "warp_image"),
    ("deepali.core.image", "grid_sample"),
    ("deepali.modules.flow", "ExpFlow.forward"),
    ("deepali.modules.flow", "ExpFlow.inverse"),
    ("deepali.spatial.nonrigid", "StationaryVelocityFieldTransform.update"),
    ("deepali.spatial.bspline", "StationaryVelocityFreeFormDeformation.update"),
]
N_CASES = {"quick": 120, "thorough": 6000}
BUDGET = {"quick": 400, "thorough": 3600}
STEPS = list(range(0, 9))


def plan(tier, seed):
    return [["case", i] for i in range(N_CASES[tier])]


def mandatory(tier):
    out = [f"steps/{k}" for k in STEPS]
    out += ["ac/True", "ac/False", "dtype/float32", "dtype/float64", "D/2", "D/3", "ExpFlow", "SVF", "SVF/steps=0", "SVFFD", "smooth", "batch>1"]
    out += [f"FlowFields.exp/{a}/grid_flag={g}" for g in (True, False) for a in ("cube", "world", "grid", "cube_corners")]
    return out


def compose_numpy(u, v, align_corners):
    r"""w = u + v(x + u) with scipy linear interpolation, fields (D, ..., X) in normalised cube units."""
    from scipy.ndimage import map_coordinates

    D = u.shape[0]
    shape = u.shape[1:]
    n = np.asarray(shape[::-1], dtype=np.float64)  # (x, ...)
    unit = 2.0 / (n - 1 if align_corners else n)
    idx = np.stack(np.meshgrid(*[np.arange(k, dtype=np.float64) for k in shape], indexing="ij"), axis=0)  # (D, ...) in (z, y, x)
    u_idx = np.stack([u[D - 1 - a] / unit[D - 1 - a] for a in range(D)], axis=0)  # displacement along array axis a
    pos = idx + u_idx
    w = np.empty_like(u)
    for c in range(D):
        w[c] = u[c] + map_coordinates(v[c], pos, order=1, mode="nearest")
    return w


def run_item(ctx, item):
    import torch
    from deepali.core.flow import expv
    from deepali.core.grid import Grid
    from deepali.modules.flow import ExpFlow

    i = item[1]
    rng = ctx.rng()
    D = int(rng.choice([2, 3]))
    shape = tuple(int(rng.integers(2, 25 if D == 2 else 13)) for _ in range(D))
    ac = bool(i % 2)
    dtype = torch.float64 if (i // 2) % 2 else torch.float32
    N = int(rng.integers(1, 4)) if i % 3 == 0 else 1
    ctx.bucket(f"ac/{ac}")
    ctx.bucket(f"dtype/{str(dtype).split('.')[-1]}")
    ctx.bucket(f"D/{D}")
    if N > 1:
        ctx.bucket("batch>1")
    gens = [F.invariant_affine(rng, shape, ac) for _ in range(N)]
    x = F.norm_coords(shape, ac)
    v_np = np.stack([F.velocity_field(H, b, x) for H, b in gens])
    v = torch.tensor(v_np, dtype=dtype)
    desc = dict(shape=list(shape), align_corners=ac, dtype=str(dtype), N=N, H=[g[0].tolist() for g in gens], b=[g[1].tolist() for g in gens])
    ctx.nontriv(desc)
    ctx.sample(desc)
    tol = 1e-10 if dtype == torch.float64 else 3e-5
    info = dict(shape=list(shape), align_corners=ac, dtype=str(dtype))
    errs = {}
    with ctx.guard("expv", **info):
        for k in STEPS:
            ctx.bucket(f"steps/{k}")
            u = expv(v, steps=k, align_corners=ac)
            ref = np.stack([F.affine_field(F.exp_squaring(H, b, k), x) for H, b in gens])
            ctx.true("expv_shape_dtype", u.shape == v.shape and u.dtype == v.dtype, steps=k, **info)
            ctx.close("expv_vs_matrix_power", u, ref, tol, key=f"expv/closed_form", steps=k, **info)
            exact = np.stack([F.affine_field(F.exp_exact(H, b), x) for H, b in gens])
            errs[k] = float(np.abs(u.double().numpy() - exact).max())
            # scale: (I + sH/2^k)^(2^k) for 0 < s <= 1 keeps the hull invariant as well
            s = float(rng.choice([0.5, 0.25, 0.75]))
            us = expv(v, scale=s, steps=k, align_corners=ac)
            refs = np.stack([F.affine_field(F.exp_squaring(H, b, k, scale=s), x) for H, b in gens])
            ctx.close("expv_scaled_vs_matrix_power", us, refs, tol, key="expv/scale", steps=k, scale=s, **info)
            # inverse flag == negated field == negated scale (relations between executions)
            a = expv(v, steps=k, align_corners=ac, inverse=True)
            b_ = expv(-v, steps=k, align_corners=ac)
            c = expv(v, scale=-1, steps=k, align_corners=ac)
            rt = 1e-12 if dtype == torch.float64 else 1e-5
            ctx.close("inverse_flag_equals_negated_field", a, b_, rt * (1 + float(b_.abs().max())), key="expv/inverse", steps=k, **info)
            ctx.close("inverse_flag_equals_negative_scale", a, c, rt * (1 + float(c.abs().max())), key="expv/inverse", steps=k, **info)
            d = expv(v, scale=s, steps=k, align_corners=ac, inverse=True)
            e = expv(v, scale=-s, steps=k, align_corners=ac)
            ctx.close("inverse_flag_with_scale", d, e, rt * (1 + float(e.abs().max())), key="expv/inverse", steps=k, **info)
        # steps = 0 returns the scaled input
        ctx.close("zero_steps_returns_scaled_input", expv(v, scale=0.5, steps=0, align_corners=ac), 0.5 * v_np, 1e-6 * (1 + np.abs(v_np).max()), key="expv/steps0", **info)
        ctx.close("zero_steps_unit_scale_returns_input", expv(v, steps=0, align_corners=ac), v, 0.0, key="expv/steps0", **info)
        # convergence to the matrix exponential: error roughly halves per step until rounding dominates
        floor = 1e-9 if dtype == torch.float64 else 5e-5
        for k in range(1, 9):
            ctx.true("error_vs_expm_decreases_with_steps", errs[k] <= 0.75 * errs[k - 1] + floor, key="expv/convergence", steps=k, err=errs[k], prev=errs[k - 1], **info)
        ctx.true("converged_to_expm", errs[8] <= 0.02 * errs[0] + floor, key="expv/convergence", err0=errs[0], err8=errs[8], **info)
    # ---- module wrapper
    with ctx.guard("ExpFlow", **info):
        ctx.bucket("ExpFlow")
        k = int(rng.integers(0, 9))
        s = float(rng.choice([1.0, 0.5]))
        mod = ExpFlow(scale=s, steps=k, align_corners=ac)
        ref = np.stack([F.affine_field(F.exp_squaring(H, b, k, scale=s), x) for H, b in gens])
        ctx.close("ExpFlow_vs_matrix_power", mod(v), ref, tol, key="ExpFlow/closed_form", steps=k, scale=s, **info)
        inv = mod.inverse()
        ctx.close("ExpFlow_inverse_equals_negative_scale", inv(v), expv(v, scale=-s, steps=k, align_corners=ac), 1e-6, key="ExpFlow/inverse", steps=k, **info)
        ctx.close("ExpFlow_inv_property", mod.inv(v), inv(v), 0.0, key="ExpFlow/inverse", steps=k, **info)
        ctx.close("ExpFlow_forward_inverse_flag", mod(v, inverse=True), inv(v), 1e-6, key="ExpFlow/inverse", steps=k, **info)
        ctx.close("ExpFlow_unchanged_by_inverse", mod(v), ref, tol, key="ExpFlow/closed_form", steps=k, scale=s, **info)
        dflt = ExpFlow()
        ctx.true("ExpFlow_defaults", dflt.scale == 1.0 and dflt.steps == 5 and dflt.align_corners is True, key="ExpFlow/defaults")
    # ---- data-class wrapper: FlowFields.exp() of the same field given in other vector representations, on grids
    #      carrying either flag; the exponential is taken in the cube convention the axes imply (corners only for
    #      CUBE_CORNERS), so WORLD / GRID / CUBE inputs are closed-form cases when the hull of convention False is invariant
    with ctx.guard("FlowFields.exp", key="exc/FlowFields.exp", **info):
        from deepali.core.grid import Axes
        from deepali.data.flow import FlowFields
        from .. import gen
        from ..oracle.coords import CORNERS, CUBE, GRID, WORLD

        k = int(rng.integers(0, 7))
        own = CORNERS if ac else CUBE
        ref = np.stack([F.affine_field(F.exp_squaring(H, b, k), x) for H, b in gens])
        for gac in (True, False):
            sp = tuple(float(q) for q in rng.uniform(0.5, 2.0, size=D))
            grid = Grid(shape=shape, spacing=sp, align_corners=gac)
            rg = gen.ref_of_grid(grid)

            def conv(arr, a, b_):
                return np.moveaxis(rg.vectors(np.moveaxis(arr, 1, -1), a, b_), -1, 1)

            for a in ([own] if ac else [CUBE, WORLD, GRID]):
                ff = FlowFields(torch.tensor(conv(v_np, own, a), dtype=dtype), grid, Axes(a))
                out = ff.exp(steps=k)
                ok = ctx.true("FlowFields_exp_keeps_axes_and_grid", isinstance(out, FlowFields) and out.axes() is Axes(a) and out.grid() == grid and out.grid().align_corners() == gac, key="FlowFields.exp/attrs", axes=a, grid_flag=gac, **info)
                if ok:
                    scale_a = float(np.abs(conv(np.ones_like(v_np), own, a)).max())
                    want = conv(ref, own, a)
                    # vectors given in world / grid units are converted with the grid's float32 attributes (2 conversions)
                    t_a = tol * scale_a * 4 if a == own else max(tol * scale_a * 4, 2e-6 * (float(np.abs(want).max()) + float(np.abs(conv(v_np, own, a)).max())))
                    ctx.close("FlowFields_exp_vs_matrix_power", out.tensor(), want, t_a, key="FlowFields.exp/closed_form", axes=a, grid_flag=gac, steps=k, **info)
                ctx.bucket(f"FlowFields.exp/{a}/grid_flag={gac}")
    # ---- transforms' displacement buffers
    with ctx.guard("SVF", **info):
        from deepali.spatial import StationaryVelocityFieldTransform

        ctx.bucket("SVF")
        k = int(rng.integers(0, 8))
        ctx.bucket("SVF/steps=0" if k == 0 else "SVF/steps>0")
        grid = Grid(shape=shape, align_corners=ac)
        t = StationaryVelocityFieldTransform(grid, params=v.float(), steps=k)
        t.update()
        ref = np.stack([F.affine_field(F.exp_squaring(H, b, k), x) for H, b in gens])
        ctx.close("SVF_u_buffer_vs_matrix_power", t.u, ref, 2e-4, key="SVF/u", steps=k, **info)
        ctx.close("SVF_v_buffer_is_velocity", t.v, v_np, 1e-6 * (1 + np.abs(v_np).max()), key="SVF/v", **info)
        ctx.close("SVF_tensor_and_disp_are_the_u_buffer", t.tensor(), ref, 2e-4, key="SVF/u", steps=k, **info)
        ctx.close("SVF_disp_is_the_u_buffer", t.disp(), ref, 2e-4, key="SVF/u", steps=k, **info)
        ti = t.inverse(update_buffers=True)
        ti.update()
        ctx.close("SVF_inverse_u_equals_expv_negative", ti.u, expv(v.float(), scale=-1, steps=k, align_corners=ac), 1e-5, key="SVF/inverse", steps=k, **info)
        # derived copies (other convention, more steps) must not change what the original computes afterwards
        other = t.grid(grid.align_corners(not ac))
        other.update()
        # ... and the re-gridded copy exponentiates its own (converted) velocities with its own convention
        ctx.close("SVF_regridded_copy_u_is_expv_of_its_v", other.u, expv(other.v, steps=k, align_corners=not ac), 1e-5, key="SVF/u_after_grid_", steps=k, **info)
        t_in = StationaryVelocityFieldTransform(grid, params=v.float(), steps=k)
        t_in.update()
        t_in.grid_(grid.align_corners(not ac))
        t_in.update()
        ctx.close("SVF_u_after_grid__is_expv_of_its_v", t_in.u, expv(t_in.v, steps=k, align_corners=not ac), 1e-5, key="SVF/u_after_grid_", steps=k, **info)
        t.update()
        ctx.close("SVF_u_buffer_unchanged_by_regridded_copy", t.u, ref, 2e-4, key="SVF/u_after_copy", steps=k, **info)
        ti2 = t.inverse(update_buffers=True)
        ctx.close("SVF_inverse_u_ready_after_inverse_with_update_buffers", ti2.u, expv(v.float(), scale=-1, steps=k, align_corners=ac), 1e-5, key="SVF/inverse", steps=k, **info)
    if all(n >= 4 for n in shape):
        with ctx.guard("SVFFD", **info):
            from deepali.spatial import StationaryVelocityFreeFormDeformation

            ctx.bucket("SVFFD")
            k = int(rng.integers(0, 8))
            stride = int(rng.integers(1, 4))
            grid = Grid(shape=shape, align_corners=True)
            xg = F.norm_coords(shape, True)
            g1 = [F.invariant_affine(rng, shape, True) for _ in range(N)]
            t = StationaryVelocityFreeFormDeformation(grid, groups=N, params=False, stride=stride, steps=k)
            cshape = tuple(t.data_shape[1:])
            # control point j sits at grid index (j - 1) * stride
            axes = [((np.arange(m) - 1) * stride) for m in cshape]
            cidx = np.stack(np.meshgrid(*axes, indexing="ij"), axis=-1)[..., ::-1].astype(np.float64)
            n = np.asarray(shape[::-1], dtype=np.float64)
            cx = 2 * cidx / (n - 1) - 1
            coef = np.stack([F.velocity_field(H, b, cx) for H, b in g1])
            t.data_(torch.tensor(coef, dtype=torch.float32))
            t.update()
            vref = np.stack([F.velocity_field(H, b, xg) for H, b in g1])
            ctx.close("SVFFD_v_buffer_linear_precision", t.v, vref, 2e-5 * (1 + np.abs(coef).max()), key="SVFFD/v", stride=stride, **info)
            ref = np.stack([F.affine_field(F.exp_squaring(H, b, k), xg) for H, b in g1])
            ctx.close("SVFFD_u_buffer_vs_matrix_power", t.u, ref, 3e-4, key="SVFFD/u", stride=stride, steps=k, **info)
    # ---- smooth non-affine fields: exp(v) o exp(-v) = id up to O(a^2)
    if i % 2 == 0:
        with ctx.guard("smooth", **info):
            ctx.bucket("smooth")
            sshape = tuple(int(rng.integers(16, 33 if D == 2 else 21)) for _ in range(D))
            errs_a = {}
            seed_state = rng.integers(0, 2**31)
            for a in (0.5, 0.25):
                r2 = np.random.default_rng(seed_state)
                f = F.smooth_field(r2, sshape, ac, a)
                vt = torch.tensor(f[None], dtype=dtype)
                up = expv(vt, steps=6, align_corners=ac)[0].double().numpy()
                um = expv(vt, steps=6, align_corners=ac, inverse=True)[0].double().numpy()
                w = compose_numpy(up, um, ac)
                n = np.asarray(sshape[::-1], dtype=np.float64)
                unit = 2.0 / (n - 1 if ac else n)
                err = float(np.abs(w / unit.reshape((D,) + (1,) * D)).max())
                errs_a[a] = err
                ctx.note_max(f"smooth_err_samples_D{D}_a{a}", err)
                ctx.close("exp_v_then_exp_minus_v_is_identity", err, 0.0, 0.35 * a * a + 0.09 * a, key="expv/smooth_inverse", amplitude=a, smooth_shape=list(sshape), **info)
            ctx.true("smooth_inverse_error_is_superlinear", errs_a[0.5] >= 1.6 * errs_a[0.25] or errs_a[0.5] < 2e-4, key="expv/smooth_order", errs=errs_a, **info)
