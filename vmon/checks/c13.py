r"""C13 — composition of flows and velocity fields obeys its algebra."""

from __future__ import annotations

import numpy as np

from ..oracle import fields as F
from .c11 import compose_numpy

PROPERTY = "C13"
RULE = (
    "Each case draws a grid shape (D in {2,3}), an align_corners flag, a dtype and a batch size, then (a) composes "
    "pairs of affine displacement fields that map the sample hull into itself and compares with the exact matrix "
    "product, the zero field as two-sided identity, and batches N > 1; (b) checks bilinearity and antisymmetry of "
    "the Lie bracket on smooth random fields for every derivative mode; (c) compose_svfs on commuting fields "
    "(scalar multiples) for bch_terms 0..5 against u + v, argument validation, and on non-commuting smooth fields "
    "the error err_k = |exp(BCH_k) - exp(v) o exp(u)| (reference composition by an independent scipy interpolator) "
    "must not grow with k; (d) logv(expv(v)) for smooth boundary-vanishing fields under both conventions. "
    "Non-trivial: every case; distinct = hash of shape, flag, dtype and generated coefficients."
)
ASSUMPTIONS = [
    "linear interpolation reproduces affine fields exactly inside the sample hull",
    "empirical bounds (in samples) are >= 5x the worst value measured on the unchanged tree over seeds 0..3; recorded in the evidence notes",
]
ANCHORS = [
    ("deepali.core.flow", "compose_flows"),
    ("deepali.core.flow", "compose_svfs"),
    ("deepali.core.flow", "lie_bracket"),
    ("deepali.core.flow", "logv"),
    ("deepali.core.flow", "expv"),
]
N_CASES = {"quick": 64, "thorough": 2000}
BUDGET = {"quick": 500, "thorough": 5400}


def plan(tier, seed):
    return [["case", i] for i in range(N_CASES[tier])]


def mandatory(tier):
    return ["ac/True", "ac/False", "D/2", "D/3", "compose_affine", "compose_after_other_convention", "batch>1", "bracket", "bch_commuting", "bch_noncommuting", "bch_series_terms", "bracket/options/sigma", "bracket/options/sigma+spacing", "bracket/options/spacing", "bracket/options/per_item_spacing", "bracket/linear_fields/gaussian", "bracket/linear_fields/central", "logv", "logv/exp_steps=0", "logv/bch_terms/0", "logv/bch_terms/1", "logv/bch_terms/2", "logv/bch_terms/3"] + [f"bch_terms/{k}" for k in range(6)]


def to_samples(w, shape, ac):
    D = len(shape)
    n = np.asarray(shape[::-1], dtype=np.float64)
    unit = 2.0 / (n - 1 if ac else n)
    return w / unit.reshape((D,) + (1,) * D)


def run_item(ctx, item):
    import torch
    from deepali.core import flow as U

    i = item[1]
    rng = ctx.rng()
    ac = bool(i % 2)
    D = 3 if (i // 2) % 4 == 0 else 2
    dtype = torch.float64 if (i // 8) % 2 else torch.float32
    shape = tuple(int(rng.integers(4, 21 if D == 2 else 11)) for _ in range(D))
    N = int(rng.integers(2, 4)) if i % 3 == 0 else 1
    ctx.bucket(f"ac/{ac}")
    ctx.bucket(f"D/{D}")
    info = dict(shape=list(shape), align_corners=ac, dtype=str(dtype), N=N)
    ctx.nontriv(info, i)
    ctx.sample(info)
    x = F.norm_coords(shape, ac)
    tol = 1e-10 if dtype == torch.float64 else 2e-5

    # ---------------- (a) compose_flows on affine fields
    def contraction():
        H, b = F.invariant_affine(rng, shape, ac)
        t = rng.uniform(0.2, 1.0)
        return np.eye(D + 1) + t * F.hom(H, b)

    Mu = [contraction() for _ in range(N)]
    Mv = [contraction() for _ in range(N)]
    u_np = np.stack([F.affine_field(M, x) for M in Mu])
    v_np = np.stack([F.affine_field(M, x) for M in Mv])
    u, v = torch.tensor(u_np, dtype=dtype), torch.tensor(v_np, dtype=dtype)
    with ctx.guard("compose_flows", key="exc/compose_flows/" + ("batch" if N > 1 else "single"), **info):
        ctx.bucket("compose_affine")
        if N > 1:
            ctx.bucket("batch>1")
        w = U.compose_flows(u, v, align_corners=ac)
        ref = np.stack([F.affine_field(b_ @ a_, x) for a_, b_ in zip(Mu, Mv)])
        ctx.close("compose_affine_fields_exact", w, ref, tol, key="compose/affine", **info)
        zero = torch.zeros_like(u)
        ctx.close("zero_is_right_identity", U.compose_flows(u, zero, align_corners=ac), u_np, tol, key="compose/identity", **info)
        ctx.close("zero_is_left_identity", U.compose_flows(zero, v, align_corners=ac), v_np, tol, key="compose/identity", **info)
        # associativity on affine fields: (w o v) o u == w o (v o u)
        Mw = [contraction() for _ in range(N)]
        w_t = torch.tensor(np.stack([F.affine_field(M, x) for M in Mw]), dtype=dtype)
        left = U.compose_flows(U.compose_flows(u, v, align_corners=ac), w_t, align_corners=ac)
        right = U.compose_flows(u, U.compose_flows(v, w_t, align_corners=ac), align_corners=ac)
        ctx.close("compose_associative_on_affine_fields", left, right, tol * 4, key="compose/associative", **info)
        # the same call gives the same result whatever was composed before it (other convention, same shape / dtype)
        # (composition with the zero field returns the other field sample by sample in either convention)
        ctx.close("zero_is_left_identity_in_the_other_convention_too", U.compose_flows(zero, v, align_corners=not ac), v_np, tol, key="compose/history", **info)
        ctx.bucket("compose_after_other_convention")
        ctx.close("compose_unchanged_after_call_with_other_convention", U.compose_flows(u, v, align_corners=ac), ref, tol, key="compose/history", **info)
        ctx.close("zero_is_left_identity_after_call_with_other_convention", U.compose_flows(zero, v, align_corners=ac), v_np, tol, key="compose/history", **info)
    # the convention matters: a field built for the other convention must not compose exactly (guards the oracle)
    # ---------------- (b) Lie bracket
    with ctx.guard("lie_bracket", **info):
        ctx.bucket("bracket")
        a1 = torch.tensor(F.smooth_field(rng, shape, ac, 1.0)[None], dtype=torch.float64)
        a2 = torch.tensor(F.smooth_field(rng, shape, ac, 1.0)[None], dtype=torch.float64)
        b1 = torch.tensor(F.smooth_field(rng, shape, ac, 1.0)[None], dtype=torch.float64)
        al, be = float(rng.normal()), float(rng.normal())
        sp = tuple(float(x) for x in rng.uniform(0.3, 1.5, size=D))
        for mode, extra in ((None, {}), ("central", {}), ("forward", {}), ("sobel", {}), (None, {"sigma": float(rng.uniform(0.6, 1.2))}), ("central", {"sigma": 0.8, "spacing": sp}), (None, {"spacing": sp})):
            kw = dict(mode=mode, **extra) if mode else dict(extra)
            ctx.bucket("bracket/options/" + "+".join(sorted(extra)) if extra else "bracket/options/none")
            mode = f"{mode}{sorted(extra)}" if extra else mode
            l12 = U.lie_bracket(al * a1 + be * a2, b1, **kw)
            lin = al * U.lie_bracket(a1, b1, **kw) + be * U.lie_bracket(a2, b1, **kw)
            s = float(lin.abs().max()) + 1e-12
            ctx.close("bracket_linear_in_first_argument", l12, lin, 1e-10 * s + 1e-14, key="bracket/bilinear", mode=str(mode), **info)
            r12 = U.lie_bracket(b1, al * a1 + be * a2, **kw)
            rin = al * U.lie_bracket(b1, a1, **kw) + be * U.lie_bracket(b1, a2, **kw)
            ctx.close("bracket_linear_in_second_argument", r12, rin, 1e-10 * s + 1e-14, key="bracket/bilinear", mode=str(mode), **info)
            ctx.close("bracket_antisymmetric", U.lie_bracket(a1, b1, **kw), -U.lie_bracket(b1, a1, **kw), 1e-10 * s + 1e-14, key="bracket/antisymmetric", mode=str(mode), **info)
            ctx.close("bracket_with_itself_is_zero", U.lie_bracket(a1, a1, **kw), torch.zeros_like(a1), 1e-10 * s + 1e-14, key="bracket/antisymmetric", mode=str(mode), **info)
    # ---------------- (b2) distinct commuting linear fields u = A x, v = (A^2 + 2A) x on the (generally non-cubic) grid:
    #                      their bracket vanishes in the interior for every derivative scheme, Gaussian derivatives
    #                      included, with the default (per-axis) spacing; the bracket of non-commuting linear fields has
    #                      the analytic value (B A - A B) x up to the accuracy of the scheme
    with ctx.guard("lie_bracket(linear fields)", key="exc/bracket_linear", **info):
        ctx.bucket("bracket/linear_fields")
        xs = F.norm_coords(shape, ac)
        A_ = rng.normal(size=(D, D)) * 0.4
        B_ = A_ @ A_ + 2 * A_
        C_ = rng.normal(size=(D, D)) * 0.4
        lin = lambda M: torch.tensor(F.velocity_field(M, np.zeros(D), xs)[None], dtype=torch.float64)  # noqa: E731
        ua_, vb_, wc_ = lin(A_), lin(B_), lin(C_)
        spc = tuple(float(q) for q in (2.0 / (np.asarray(shape[::-1], dtype=np.float64) - (1 if ac else 0))))
        rim = 4
        inner = (slice(None), slice(None)) + (slice(rim, -rim),) * D
        if min(shape) > 2 * rim + 1:
            scale_ = float((np.abs(A_).max() + np.abs(C_).max()) ** 2) + 1e-9
            want_nc = torch.tensor(F.velocity_field(A_ @ C_ - C_ @ A_, np.zeros(D), xs)[None], dtype=torch.float64)
            for mode_, kw_, rel_ in (("central", {}, 2e-6), ("sobel", {}, 2e-6), ("gaussian", {"sigma": 0.7}, 0.2), ("gaussian", {"sigma": 1.0}, 0.2)):
                lb0 = U.lie_bracket(ua_, vb_, mode=mode_, spacing=spc, **kw_)[inner]
                ctx.close("bracket_of_commuting_linear_fields_vanishes", lb0, torch.zeros_like(lb0), rel_ * 0.05 * scale_ + 1e-9, key=f"bracket/linear/commuting/{mode_}", mode=mode_, **info)
                lb1 = U.lie_bracket(ua_, wc_, mode=mode_, spacing=spc, **kw_)[inner]
                w_ = want_nc[inner]
                # sign and size: the documented definition [v, u] = Jac(v) u - Jac(u) v, here (A C - C A) x
                ctx.close("bracket_of_linear_fields_has_analytic_value", lb1, w_, rel_ * float(w_.abs().max()) + 1e-9, key=f"bracket/linear/value/{mode_}", mode=mode_, **info)
                ctx.bucket(f"bracket/linear_fields/{mode_}")
    # ---------------- (c) BCH composition
    with ctx.guard("compose_svfs", **info):
        ctx.bucket("bch_commuting")
        base = torch.tensor(np.stack([F.smooth_field(rng, shape, ac, 0.5) for _ in range(N)]), dtype=dtype)
        ca, cb = float(rng.uniform(-1, 1)), float(rng.uniform(-1, 1))
        for k in range(6):
            ctx.bucket(f"bch_terms/{k}")
            w = U.compose_svfs(ca * base, cb * base, bch_terms=k)
            ctx.close("bch_of_commuting_fields_is_sum", w, (ca + cb) * base, (1e-10 if dtype == torch.float64 else 1e-5) * (1 + float(base.abs().max())), key="bch/commuting", bch_terms=k, **info)
        sg = float(rng.uniform(0.6, 1.2))
        for k in range(6):  # derivative options are passed to every bracket alike: commuting fields stay commuting
            w = U.compose_svfs(ca * base, cb * base, bch_terms=k, sigma=sg, mode=["central", "sobel", None][k % 3])
            ctx.close("bch_of_commuting_fields_is_sum_with_options", w, (ca + cb) * base, (1e-10 if dtype == torch.float64 else 1e-5) * (1 + float(base.abs().max())), key="bch/commuting", bch_terms=k, sigma=sg, **info)
        if N > 1:
            # one spacing row per batch item: every item is differentiated with its own row, so commuting fields stay
            # commuting and the batched bracket equals the items computed alone
            ctx.bucket("bracket/options/per_item_spacing")
            spt = torch.tensor(rng.uniform(0.3, 1.5, size=(N, D)), dtype=dtype)
            for k in range(1, 6):
                w = U.compose_svfs(ca * base, cb * base, bch_terms=k, spacing=spt)
                ctx.close("bch_of_commuting_fields_is_sum_with_per_item_spacing", w, (ca + cb) * base, (1e-10 if dtype == torch.float64 else 1e-5) * (1 + float(base.abs().max())), key="bch/commuting", bch_terms=k, spacing="per-item", **info)
            other = torch.tensor(np.stack([F.smooth_field(rng, shape, ac, 0.5) for _ in range(N)]), dtype=dtype)
            lb_all = U.lie_bracket(base, other, spacing=spt)
            for n_ in range(N):
                lb_one = U.lie_bracket(base[n_ : n_ + 1], other[n_ : n_ + 1], spacing=tuple(float(q) for q in spt[n_]))
                ctx.close("bracket_with_per_item_spacing_equals_item_alone", lb_all[n_ : n_ + 1], lb_one, (1e-10 if dtype == torch.float64 else 1e-5) * (1 + float(lb_one.abs().max())), key="bracket/per_item_spacing", item=n_, **info)
        try:
            U.compose_svfs(base, base, bch_terms=-1)
            ctx.true("negative_bch_terms_rejected", False, key="bch/validation")
        except ValueError:
            ctx.true("negative_bch_terms_rejected", True, key="bch/validation")
        try:
            U.compose_svfs(base, base, bch_terms=6)
            ctx.true("too_many_bch_terms_rejected", False, key="bch/validation")
        except NotImplementedError:
            ctx.true("too_many_bch_terms_rejected", True, key="bch/validation")
    if i % 2 == 0:
        with ctx.guard("compose_svfs(noncommuting)", **info):
            ctx.bucket("bch_noncommuting")
            sshape = tuple(int(rng.integers(16, 29 if D == 2 else 17)) for _ in range(D))
            amp = 0.5
            fu = torch.tensor(F.smooth_field(rng, sshape, ac, amp)[None], dtype=torch.float64)
            fv = torch.tensor(F.smooth_field(rng, sshape, ac, amp)[None], dtype=torch.float64)
            eu = U.expv(fu, steps=6, align_corners=ac)[0].numpy()
            ev = U.expv(fv, steps=6, align_corners=ac)[0].numpy()
            ref = compose_numpy(eu, ev, ac)  # exp(v) o exp(u): u applied first
            errs = []
            for k in range(6):
                # spacing: derivatives w.r.t. the normalised cube of the given convention
                n = np.asarray(sshape[::-1], dtype=np.float64)
                spacing = tuple(float(s) for s in (2.0 / (n - 1 if ac else n)))
                w = U.compose_svfs(fu, fv, bch_terms=k, spacing=spacing)
                ew = U.expv(w, steps=6, align_corners=ac)[0].numpy()
                errs.append(float(np.abs(to_samples(ew - ref, sshape, ac)).max()))
            ctx.note_max(f"bch_err0_samples_D{D}", errs[0])
            ctx.note_max(f"bch_err5_samples_D{D}", errs[5])
            for k in range(1, 6):
                ctx.true("bch_error_does_not_grow_with_order", errs[k] <= 1.05 * errs[k - 1] + 2e-3, key="bch/error_growth", bch_terms=k, errs=errs, smooth_shape=list(sshape), **info)
            ctx.true("bch_first_term_improves_on_sum", errs[1] <= errs[0] + 2e-3, key="bch/error_growth", errs=errs, **info)
            # the series itself (documented for orders 1-3; order 4 of the BCH formula is -1/24 [u, [v, [v, u]]], which the
            # library includes half at bch_terms=4 and completely at 5): increments between truncation orders, with
            # the brackets evaluated by the library's own lie_bracket (bilinearity / antisymmetry checked above,
            # values against analytic Jacobians in C12)
            ctx.bucket("bch_series_terms")
            lb = lambda a, b: U.lie_bracket(a, b, spacing=spacing)  # noqa: E731
            ws = [U.compose_svfs(fu, fv, bch_terms=k, spacing=spacing) for k in range(6)]
            vu = lb(fv, fu)
            vvu = lb(fv, vu)
            t4 = lb(fu, vvu).mul(-1 / 24)
            terms = {1: vu.mul(0.5), 2: lb(fv, vu).mul(1 / 12), 3: lb(fu, vu).mul(-1 / 12)}
            for k in (1, 2, 3):
                sc = float(terms[k].abs().max()) + 1e-14
                ctx.close("bch_increment_is_documented_term", ws[k] - ws[k - 1], terms[k], 1e-9 * sc + 1e-15, key="bch/series", bch_terms=k, **info)
            sc = float(t4.abs().max()) + 1e-14
            ctx.close("bch_fourth_order_term_complete_at_5", ws[5] - ws[3], t4, 1e-9 * sc + 1e-15, key="bch/series", bch_terms=5, **info)
            d4 = (ws[4] - ws[3]).reshape(-1)
            c4 = float((d4 * t4.reshape(-1)).sum() / (t4.reshape(-1) ** 2).sum())
            ctx.true("bch_terms_4_is_partial_fourth_order_term", 0.0 <= c4 <= 1.0 + 1e-9 and float((d4 - c4 * t4.reshape(-1)).abs().max()) <= 1e-9 * sc + 1e-15, key="bch/series", bch_terms=4, fraction=c4, **info)
    # ---------------- (d) logv(expv(v))
    if i % 4 in (0, 1):
        with ctx.guard("logv", **info):
            ctx.bucket("logv")
            sshape = tuple(int(rng.integers(16, 29 if D == 2 else 19)) for _ in range(D))
            amp = float(rng.choice([0.25, 0.5]))
            f = torch.tensor(F.smooth_field(rng, sshape, ac, amp)[None], dtype=torch.float32)
            e = U.expv(f, align_corners=ac)
            n = np.asarray(sshape[::-1], dtype=np.float64)
            spacing = tuple(float(s) for s in (2.0 / (n - 1 if ac else n)))
            back = U.logv(e, align_corners=ac, spacing=spacing)
            err = float(np.abs(to_samples((back - f)[0].double().numpy(), sshape, ac)).max())
            ctx.note_max(f"logv_err_samples_D{D}_ac{ac}_a{amp}", err)
            ctx.close("logv_of_expv_returns_field", err, 0.0, 0.4 * amp * amp + 0.1 * amp, key=f"logv/roundtrip/ac={ac}", amplitude=amp, smooth_shape=list(sshape), **info)
            # zero exponentiation steps: exp is the identity on the field (exp(v) = v, exp(-v) = -v), and so is log
            e0 = U.expv(f, steps=0, align_corners=ac)
            for its in (1, 3):
                b0 = U.logv(e0, num_iters=its, exp_steps=0, align_corners=ac, spacing=spacing)
                err0 = float(np.abs(to_samples((b0 - f)[0].double().numpy(), sshape, ac)).max())
                ctx.close("logv_with_zero_exp_steps_returns_field", err0, 0.0, 0.4 * amp * amp + 0.1 * amp, key=f"logv/exp_steps=0/ac={ac}", num_iters=its, amplitude=amp, **info)
            ctx.bucket("logv/exp_steps=0")
            # one fixed-point iteration must already reduce the residual of the initial guess v0 = flow
            r0 = float(np.abs(to_samples((e - f)[0].double().numpy(), sshape, ac)).max())
            ctx.true("logv_improves_on_initial_guess", err <= r0 + 1e-3, key=f"logv/roundtrip/ac={ac}", err=err, initial=r0, **info)
            # iteration counts and truncation orders ("iteration counts" of the quantifier): the residual must not grow
            # with more iterations, for any bch_terms, and the input field is left untouched
            prev = None
            bt = int(rng.integers(0, 4))
            e_before = e.clone()
            for iters in (1, 2, 4, 7):
                ctx.bucket(f"logv/bch_terms/{bt}")
                bk = U.logv(e, num_iters=iters, bch_terms=bt, align_corners=ac, spacing=spacing)
                er = float(np.abs(to_samples((bk - f)[0].double().numpy(), sshape, ac)).max())
                ctx.true("logv_input_not_modified", bool((e == e_before).all()), key="logv/input_mutated", bch_terms=bt, num_iters=iters, **info)
                ctx.close("logv_roundtrip_within_bound_for_all_iteration_counts", er, 0.0, max(0.4 * amp * amp + 0.1 * amp, 1.05 * r0), key=f"logv/iterations/bch_terms={bt}", num_iters=iters, amplitude=amp, **info)
                if prev is not None:
                    ctx.true("logv_error_does_not_grow_with_iterations", er <= 1.25 * prev + 2e-3, key=f"logv/iterations/bch_terms={bt}", num_iters=iters, err=er, previous=prev, amplitude=amp, **info)
                prev = er
