r"""C10 — flow fields mean the same displacement in every vector representation."""

from __future__ import annotations

import itertools

import numpy as np

from .. import gen
from ..oracle.coords import AXES, CORNERS, CUBE, GRID, WORLD
from ..oracle.ramp import Ramp, Validity, world_positions

PROPERTY = "C10"
RULE = (
    "Each case builds a batch (N in 1..3) of flow fields on distinct oriented anisotropic grids whose world-space "
    "vectors are an affine function of world position (plus a smooth field for the exponential), expresses it in "
    "each of the four vector representations and checks: FlowFields.axes / FlowField.axes for all 16 ordered pairs "
    "against the per-grid vector map of the coordinate oracle, invertibility and path independence; warp_image of a "
    "world-linear ramp image (exact oracle a.(w + u(w)) + b), sample(grid) on arbitrary target grids (world vectors "
    "must equal the affine field at the new world positions, representation kept), exp() (same world result from "
    "every representation and equal to expv on cube vectors), FlowField.sitk()/from_sitk (world vectors), and the "
    "normalize/denormalize helpers. Non-trivial: rotated or anisotropic grids; distinct = hash of grids and field."
)
ASSUMPTIONS = [
    "vector maps from vmon.oracle.coords (linear part of the point maps), evaluated per item grid in float64",
    "linear interpolation reproduces world-affine vector fields exactly inside the field of view",
    "tolerance 5e-4 of the field magnitude (float32 data, several conversions)",
]
ANCHORS = [
    ("deepali.data.flow", "FlowFields.axes"),
    ("deepali.data.flow", "FlowField.axes"),
    ("deepali.data.flow", "FlowFields.exp"),
    ("deepali.data.flow", "FlowFields.sample"),
    ("deepali.data.flow", "FlowFields.warp_image"),
    ("deepali.data.flow", "FlowField.sitk"),
    ("deepali.core.grid", "Grid.transform_vectors"),
    ("deepali.core.flow", "normalize_flow"),
    ("deepali.core.flow", "denormalize_flow"),
    ("deepali.core.pointset", "normalize_grid"),
    ("deepali.core.pointset", "denormalize_grid"),
]
N_CASES = {"quick": 80, "thorough": 8000}
BUDGET = {"quick": 400, "thorough": 3600}


def plan(tier, seed):
    return [["case", i] for i in range(N_CASES[tier])]


def mandatory(tier):
    out = [f"axes/{a}->{b}" for a, b in itertools.product(AXES, AXES)]
    out += [f"warp/{a}" for a in AXES] + [f"sample/{a}" for a in AXES] + [f"exp/{a}" for a in AXES]
    out += [f"sample_same_domain/{h}" for h in ("downsample", "upsample", "resize", "flip_align_corners")] + ["shared_grid", "per_field_grids", "per_field_grids/same_spacing_other_orientation", "FlowField", "sitk", "helpers", "transform_flow/own", "transform_flow/flag_flipped", "transform_flow/same_domain_resized", "derived_grids/fractional_internal_size", "singleton_axis", "transform_flow/after_grid_", "warp/single_flow_batch"] + [f"regrid_method/{o}" for o in ("resize", "resample", "downsample", "avg_pool", "crop", "pad", "center_crop")]
    return out


def to_axes(ref, v_world, axes):
    r"""(D, ...) world vectors -> vectors w.r.t. ``axes`` of grid ``ref`` (float64)."""
    v = np.moveaxis(v_world, 0, -1)
    return np.moveaxis(ref.vectors(v, WORLD, axes), -1, 0)


def run_item(ctx, item):
    import torch
    from deepali.core import flow as U
    from deepali.core.grid import Axes
    from deepali.core.pointset import denormalize_grid, normalize_grid
    from deepali.data.flow import FlowField, FlowFields
    from deepali.data.image import Image, ImageBatch

    i = item[1]
    rng = ctx.rng()
    D = int(rng.choice([2, 3]))
    N = int(rng.integers(1, 4))
    shared = (i % 3 == 0) or N == 1
    ctx.bucket("shared_grid" if shared else "per_field_grids")
    p0 = gen.rand_grid_params(rng, D, max_size=20 if D == 2 else 10, min_size=6, big_offset=False)
    params = []
    for n in range(N):
        p = dict(p0)
        if n > 0 and not shared:
            R, kind = gen.rand_direction(rng, D)
            p["direction"] = R.tolist()
            p["route"] = "center"
            p.pop("origin", None)
            p["center"] = gen.f32(rng.normal(size=D) * 4).tolist()
            if i % 3 == 1:  # same size and spacing, only position and orientation differ between the fields
                ctx.bucket("per_field_grids/same_spacing_other_orientation")
            else:
                p["spacing"] = gen.f32(np.asarray(p0["spacing"]) * rng.choice([0.5, 1.0, 1.5, 2.0], size=D)).tolist()
        params.append(p)
    derived = (i % 4 == 3)
    if derived:
        # the fields live on pyramid-level grids: halving an odd size leaves a fractional internal size (13 -> 6.5,
        # reported 7) and every vector conversion has to use the reported size
        params = [dict(p, size=[2 * int(k) + int(rng.integers(0, 2)) for k in p["size"]]) for p in params]
        if not shared:
            params = [dict(p, size=params[0]["size"]) for p in params]
    grids = [gen.make_grid(p) for p in params]
    if derived:
        grids = [g.downsample(1) for g in grids]
        ctx.bucket("derived_grids")
        if any(bool((g._size != g._size.round()).any()) for g in grids):
            ctx.bucket("derived_grids/fractional_internal_size")
    if shared:
        grids = [grids[0]] * N
    refs = [gen.ref_of_grid(g) for g in grids]
    if any(gen.grid_nontrivial(p) for p in params):
        ctx.nontriv(params)
    ctx.sample({"grids": params, "shared": shared})
    ax = {a: Axes(a) for a in AXES}
    # world-affine vector field, magnitude about one sample
    A = rng.normal(size=(N, D, D))
    t = rng.normal(size=(N, D))
    fields_w = []
    for n, ref in enumerate(refs):
        w = world_positions(ref)
        ext = float(np.linalg.norm(ref.s * ref.n))
        v = ((w - ref.c) @ (A[n] * 0.6).T / ext + 0.3 * t[n]) * float(ref.s.mean())
        fields_w.append(np.moveaxis(v, -1, 0))
    mag = max(float(np.abs(f).max()) for f in fields_w) + 1e-9
    tol = 5e-4 * mag

    def in_axes(a):
        data = np.stack([to_axes(ref, f, a) for ref, f in zip(refs, fields_w)])
        return FlowFields(torch.tensor(data, dtype=torch.float32), grids, axes=ax[a]), data

    # ---------------- 1. axes conversion, all ordered pairs
    for a, b in itertools.product(AXES, AXES):
        info = dict(axes=a, to_axes=b, N=N, shared=shared)
        with ctx.guard("FlowFields.axes", **info):
            fa, da = in_axes(a)
            fb = fa.axes(ax[b])
            ctx.bucket(f"axes/{a}->{b}")
            ok = ctx.true("axes_result_type_and_attr", isinstance(fb, FlowFields) and fb.axes() is ax[b] and len(fb.grids()) == N, key="axes/type", got=type(fb).__name__, **info)
            if not ok:
                continue
            want = np.stack([to_axes(ref, f, b) for ref, f in zip(refs, fields_w)])
            scale_b = float(np.abs(want).max()) + 1e-12
            ctx.close("axes_conversion_vs_grid_vector_map", fb.tensor(), want, 5e-4 * scale_b, key="axes/values", **info)
            back = fb.axes(ax[a])
            ctx.close("axes_conversion_invertible", back.tensor(), da, 5e-4 * (float(np.abs(da).max()) + 1e-12), key="axes/inverse", **info)
            ctx.true("axes_does_not_touch_grids", all(g1 == g0 for g1, g0 in zip(fb.grids(), grids)), key="axes/grids", **info)
    for a, b, c in itertools.product(AXES, AXES, AXES):
        with ctx.guard("FlowFields.axes(path)", axes=[a, b, c]):
            fa, _ = in_axes(a)
            direct = fa.axes(ax[c]).tensor()
            via = fa.axes(ax[b]).axes(ax[c]).tensor()
            ctx.close("axes_conversion_path_independent", via, direct, 5e-4 * (float(direct.abs().max()) + 1e-12), key="axes/path", axes=[a, b, c])
    # single flow field
    with ctx.guard("FlowField.axes"):
        ctx.bucket("FlowField")
        a, b = str(rng.choice(AXES)), str(rng.choice(AXES))
        ff = FlowField(torch.tensor(to_axes(refs[0], fields_w[0], a), dtype=torch.float32), grids[0], ax[a])
        fb = ff.axes(ax[b])
        ctx.true("single_axes_type", isinstance(fb, FlowField) and fb.axes() is ax[b], key="axes/type", got=type(fb).__name__)
        want = to_axes(refs[0], fields_w[0], b)
        ctx.close("single_axes_conversion", fb.tensor(), want, 5e-4 * (float(np.abs(want).max()) + 1e-12), key="axes/values", axes=a, to_axes=b)
    # ---------------- 2. warp_image: ramp image on the same grids
    ramps = [Ramp.random(rng, 2, ref) for ref in refs]
    img = ImageBatch(torch.tensor(np.stack([r.on_grid(ref) for r, ref in zip(ramps, refs)]), dtype=torch.float32), grids)
    # one flow field applied to a batch of several images on its grid: one described entry per image, each equal to
    # warping that image alone
    with ctx.guard("FlowField.warp_image(batch)", key="exc/warp_single_flow_batch"):
        a1 = str(rng.choice(AXES))
        f1 = FlowField(torch.tensor(to_axes(refs[0], fields_w[0], a1), dtype=torch.float32), grids[0], ax[a1])
        r0 = Ramp.random(rng, 2, refs[0])
        many = ImageBatch(torch.tensor(np.stack([r0.on_grid(refs[0]) * (k_ + 1) for k_ in range(3)]), dtype=torch.float32), grids[0])
        wb = f1.warp_image(many)
        ok = ctx.true("single_flow_warps_every_image_of_a_batch", isinstance(wb, ImageBatch) and tuple(wb.shape) == tuple(many.shape) and len(wb.grids()) == 3 and all(g_ == grids[0] for g_ in wb.grids()), key="warp/single_flow_batch/type", got=[type(wb).__name__, list(wb.shape), len(wb.grids()) if hasattr(wb, "grids") else None], axes=a1)
        if ok:
            for k_ in range(3):
                one = f1.warp_image(many[k_])
                ctx.close("single_flow_batch_entry_equals_single_warp", wb.tensor()[k_], one.tensor().numpy(), 1e-6 * (1 + float(many.tensor().abs().max())), key="warp/single_flow_batch/values", axes=a1, entry=k_)
        ctx.bucket("warp/single_flow_batch")
    for a in AXES:
        info = dict(axes=a, N=N, shared=shared)
        with ctx.guard("FlowFields.warp_image", **info):
            ctx.bucket(f"warp/{a}")
            fa, _ = in_axes(a)
            out = fa.warp_image(img)
            ok = ctx.true("warp_result", isinstance(out, ImageBatch) and tuple(out.shape) == tuple(img.shape) and len(out.grids()) == N, key="warp/type", got=type(out).__name__, **info)
            if not ok:
                continue
            for n, (ref, ramp, f) in enumerate(zip(refs, ramps, fields_w)):
                w = world_positions(ref)
                target = w + np.moveaxis(f, 0, -1)
                mask = Validity.of(ref).after(ref, [0.0] * D, True).mask(target)
                want = ramp(target)
                got = out.tensor()[n].double().numpy()
                m = np.broadcast_to(mask, want.shape)
                if mask.any():
                    ctx.close("warped_ramp_is_ramp_at_displaced_world_position", got[m], want[m], 3e-4, key=f"warp/{a}", item=n, step=ramp.step(ref), **info)
                ctx.true("warp_keeps_flow_grid", out.grids()[n] == grids[n], key="warp/grid", **info)
    # ---------------- 3. sample(grid): world vectors at new world positions
    for a in AXES:
        info = dict(axes=a, N=N, shared=shared)
        with ctx.guard("FlowFields.sample", **info):
            ctx.bucket(f"sample/{a}")
            fa, _ = in_axes(a)
            tp = gen.rand_grid_params(rng, D, max_size=14 if D == 2 else 8, min_size=4, big_offset=False, route="center")
            tp["center"] = gen.f32(refs[0].c + rng.normal(size=D) * 0.05 * refs[0].s * refs[0].n).tolist()
            tp["spacing"] = gen.f32(refs[0].s * refs[0].n * rng.uniform(0.3, 0.7, size=D) / np.asarray(tp["size"])).tolist()
            if not shared:
                # one target per field around that field's own centre
                tps = []
                for ref in refs:
                    q = dict(tp)
                    q["center"] = gen.f32(ref.c + rng.normal(size=D) * 0.05 * ref.s * ref.n).tolist()
                    q["spacing"] = gen.f32(ref.s * ref.n * rng.uniform(0.3, 0.7, size=D) / np.asarray(tp["size"])).tolist()
                    tps.append(q)
                targets = [gen.make_grid(q) for q in tps]
                arg = targets
            else:
                targets = [gen.make_grid(tp)] * N
                arg = targets[0]
            passes = [("sample", arg, targets)]
            # the same world domain sampled differently (pyramid levels, other size, other flag): cube-normalised and
            # index vectors still have to be rescaled although the domain did not change
            how = str(rng.choice(["downsample", "upsample", "resize", "flip_align_corners"]))
            same = []
            for g_n in grids:
                if how == "downsample":
                    same.append(g_n.downsample(1))
                elif how == "upsample":
                    same.append(g_n.upsample(1))
                elif how == "resize":
                    same.append(g_n.resize(tuple(int(k) + 3 for k in g_n.size())))
                else:
                    same.append(g_n.align_corners(not g_n.align_corners()))
            passes.append(("sample_same_domain", same[0] if shared else same, same))
            ctx.bucket(f"sample_same_domain/{how}")
            for label, arg, targets in passes:
                info = dict(axes=a, N=N, shared=shared, target=label)
                out = fa.sample(arg)
                ok = ctx.true("sample_result", isinstance(out, FlowFields) and len(out.grids()) == N and out.shape[0] == N and out.axes() is ax[a], key="sample/type", got=type(out).__name__, n_grids=len(out.grids()) if hasattr(out, "grids") else -1, batch=int(out.shape[0]), **info)
                if not ok:
                    continue
                for n, (ref, tg) in enumerate(zip(refs, targets)):
                    tref = gen.ref_of_grid(tg)
                    w = world_positions(tref)
                    ext = float(np.linalg.norm(ref.s * ref.n))
                    want_w = ((w - ref.c) @ (A[n] * 0.6).T / ext + 0.3 * t[n]) * float(ref.s.mean())
                    got = np.moveaxis(out.tensor()[n].double().numpy(), 0, -1)
                    got_w = tref.vectors(got, a, WORLD)
                    mask = Validity.of(ref).mask(w)
                    if mask.any():
                        ctx.close("resampled_world_vectors_equal_field_at_new_positions", got_w[mask], want_w[mask], tol, key=f"{label}/{a}", item=n, **info)
    # ---------------- 4. exp(): same world result from every representation
    sm = []
    for ref in refs:
        shape = tuple(int(k) for k in ref.n[::-1])
        from ..oracle.fields import smooth_field

        c = smooth_field(rng, shape, True, 0.8)  # cube_corners units, vanishing at the border
        v = np.moveaxis(ref.vectors(np.moveaxis(c, 0, -1), CORNERS, WORLD), -1, 0)
        sm.append(v)
    results = {}
    for a in AXES:
        info = dict(axes=a, N=N, shared=shared)
        with ctx.guard("FlowFields.exp", **info):
            ctx.bucket(f"exp/{a}")
            data = np.stack([to_axes(ref, f, a) for ref, f in zip(refs, sm)])
            fa = FlowFields(torch.tensor(data, dtype=torch.float32), grids, axes=ax[a])
            steps = 4
            e = fa.exp(steps=steps)
            ok = ctx.true("exp_result", isinstance(e, FlowFields) and e.axes() is ax[a] and len(e.grids()) == N, key="exp/type", got=type(e).__name__, **info)
            if not ok:
                continue
            ew = np.stack([np.moveaxis(ref.vectors(np.moveaxis(e.tensor()[n].double().numpy(), 0, -1), a, WORLD), -1, 0) for n, ref in enumerate(refs)])
            results[a] = ew
            # direct reference: expv on cube vectors with the matching convention, converted by the oracle
            acn = a == CORNERS
            cube_axes = CORNERS if acn else CUBE
            cdata = np.stack([to_axes(ref, f, cube_axes) for ref, f in zip(refs, sm)])
            ref_e = U.expv(torch.tensor(cdata, dtype=torch.float32), steps=steps, align_corners=acn).double().numpy()
            ref_w = np.stack([np.moveaxis(r.vectors(np.moveaxis(ref_e[n], 0, -1), cube_axes, WORLD), -1, 0) for n, r in enumerate(refs)])
            smag = max(float(np.abs(s_).max()) for s_ in sm) + 1e-9
            ctx.close("exp_equals_expv_on_cube_vectors", ew, ref_w, 2e-3 * smag, key=f"exp/{a}", **info)
    if len(results) == 4:
        smag = max(float(np.abs(s_).max()) for s_ in sm) + 1e-9
        for a in (GRID, WORLD, CORNERS):
            ctx.close("exp_world_result_independent_of_representation", results[a], results[CUBE], 2e-2 * smag, key=f"exp/{a}", axes=a)
    # ---------------- 4b. the flow field a dense transform reports on a grid: same world displacement whichever flag
    #                     the requested grid carries
    with ctx.guard("SpatialTransform.flow", key="exc/transform_flow"):
        from deepali import spatial as S

        ref0, g0 = refs[0], grids[0]
        own = CORNERS if g0.align_corners() else CUBE
        tr = S.DisplacementFieldTransform(g0, params=torch.tensor(to_axes(ref0, fields_w[0], own)[None], dtype=torch.float32))
        tr.update()
        for how in ("own", "flag_flipped", "same_domain_resized"):
            if how == "own":
                gt = g0
            elif how == "flag_flipped":
                gt = g0.align_corners(not g0.align_corners())
            else:
                gt = g0.resize(tuple(int(k) + 1 for k in g0.size()))
            with torch.no_grad():
                fl = tr.flow(gt)
            reft = gen.ref_of_grid(gt)
            wt = world_positions(reft)
            extt = float(np.linalg.norm(ref0.s * ref0.n))
            want_w = np.moveaxis(((wt - ref0.c) @ (A[0] * 0.6).T / extt + 0.3 * t[0]) * float(ref0.s.mean()), -1, 0)
            ok = ctx.true("transform_flow_is_on_requested_grid", fl.grid() == gt and fl.grid().align_corners() == gt.align_corners() and fl.axes() is Axes.from_grid(gt), key=f"transform_flow/{how}/grid", got=[repr(fl.grid()), str(fl.axes())])
            got_w = fl.axes(Axes.WORLD).tensor()[0].double().numpy()
            # linear interpolation of a world-affine field is exact inside the source sample hull
            io = ref0.points(wt, WORLD, GRID)
            inside = ((io >= 0) & (io <= ref0.n - 1)).all(axis=-1)
            if inside.any():
                ctx.close("transform_flow_world_vectors", got_w[:, inside], want_w[:, inside], tol, key=f"transform_flow/{how}", how=how, own_flag=g0.align_corners())
                ctx.bucket(f"transform_flow/{how}")
        # ... and after the transform itself was moved to the other convention (its parameters are re-expressed)
        gflip = g0.align_corners(not g0.align_corners())
        tr.grid_(gflip)
        tr.update()
        with torch.no_grad():
            fl = tr.flow()
        got_w = fl.axes(Axes.WORLD).tensor()[0].double().numpy()
        ctx.true("transform_flow_after_grid__is_on_new_grid", fl.grid() == gflip and fl.grid().align_corners() == gflip.align_corners() and fl.axes() is Axes.from_grid(gflip), key="transform_flow/after_grid_/grid")
        ctx.close("transform_flow_world_vectors_after_flag_change_of_transform", got_w, fields_w[0], tol, key="transform_flow/after_grid_")
        ctx.bucket("transform_flow/after_grid_")
    # ---------------- 4d. the re-gridding methods flow fields inherit from image batches (resize, resample, down/upsample,
    #                     pooling, crop, pad): the result means the same world displacement at its own sample positions
    ref0, g0 = refs[0], grids[0]
    ext0 = float(np.linalg.norm(ref0.s * ref0.n))

    def world_field_at(refg):
        wt = world_positions(refg)
        return np.moveaxis(((wt - ref0.c) @ (A[0] * 0.6).T / ext0 + 0.3 * t[0]) * float(ref0.s.mean()), -1, 0), wt

    n0 = [int(k) for k in g0.size()]
    regrid_ops = {
        "resize": lambda f: f.resize(tuple(int(k) + 2 for k in n0)),
        "resample": lambda f: f.resample(float(g0.spacing().min()) * 0.8),
        "downsample": lambda f: f.downsample(1, sigma=0),
        "avg_pool": lambda f: f.avg_pool(1),
        "crop": lambda f: f.crop(margin=1),
        "pad": lambda f: f.pad(margin=1, mode="replicate"),
        "center_crop": lambda f: f.center_crop(tuple(max(k - 2, 2) for k in n0)),
    }
    for a in AXES:
        for oname, op_ in regrid_ops.items():
            with ctx.guard("FlowFields regrid method", key=f"exc/regrid_method/{oname}", axes=a):
                f0 = FlowFields(torch.tensor(to_axes(ref0, fields_w[0], a)[None], dtype=torch.float32), g0, ax[a])
                r_ = op_(f0)
                ok = ctx.true("regrid_method_keeps_type_and_axes", isinstance(r_, FlowFields) and r_.axes() is ax[a], key=f"regrid_method/{oname}/meta", axes=a, got=[type(r_).__name__, str(getattr(r_, "axes", lambda: None)())])
                if not ok:
                    continue
                rr = gen.ref_of_grid(r_.grid())
                want_w, wt = world_field_at(rr)
                got_w = r_.axes(Axes.WORLD).tensor()[0].double().numpy()
                io = ref0.points(wt, WORLD, GRID)
                inside = ((io >= 0.5) & (io <= ref0.n - 1.5)).all(axis=-1)
                if inside.any():
                    ctx.close("regrid_method_preserves_world_displacement", got_w[:, inside], want_w[:, inside], tol * 4, key=f"regrid_method/{'representation_not_rescaled' if a != WORLD else 'world'}/{oname}/{a}", axes=a, op=oname, own_flag=g0.align_corners())
                ctx.bucket(f"regrid_method/{oname}")
    # ---------------- 4c. a grid with a single-sample axis (a slice of a volume, a row of an image): the representations
    #                     that exist there (index, cube of convention False, world) still mean the same displacement
    with ctx.guard("singleton axis", key="exc/singleton_axis"):
        ps = dict(params[0], align_corners=False)
        k_ = int(rng.integers(0, D))
        ps["size"] = [1 if d == k_ else int(v) for d, v in enumerate(ps["size"])]
        ps.pop("origin", None)
        ps["route"] = "center"
        ps.setdefault("center", [0.0] * D)
        gs = gen.make_grid(ps)
        rs = gen.ref_of_grid(gs)
        vw = rng.normal(size=(D,) + tuple(gs.shape)) * float(rs.s.mean())
        for a, b in itertools.product((GRID, CUBE, WORLD), (GRID, CUBE, WORLD)):
            fa = FlowFields(torch.tensor(to_axes(rs, vw, a)[None], dtype=torch.float32), gs, ax[a])
            want = to_axes(rs, vw, b)[None]
            ctx.close("singleton_axis_axes_conversion_vs_grid_vector_map", fa.axes(ax[b]).tensor(), want, 5e-4 * (float(np.abs(want).max()) + 1e-12), key="singleton/axes", axes=a, to_axes=b, size=ps["size"])
        ctx.bucket("singleton_axis")
    # ---------------- 5. SimpleITK conversion: world vectors
    with ctx.guard("FlowField.sitk"):
        ctx.bucket("sitk")
        a = str(rng.choice(AXES))
        ff = FlowField(torch.tensor(to_axes(refs[0], fields_w[0], a), dtype=torch.float32), grids[0], ax[a])
        simg = ff.sitk()
        import SimpleITK as sitk

        arr = sitk.GetArrayFromImage(simg).astype(np.float64)
        want = np.moveaxis(fields_w[0], 0, -1)
        ctx.close("sitk_pixels_are_world_vectors", arr, want, tol, key="sitk/world", axes=a)
        back = FlowField.from_sitk(simg)
        ctx.true("from_sitk_axes_world", back.axes() is Axes.WORLD, key="sitk/axes")
        ctx.close("from_sitk_values", back.tensor(), fields_w[0], tol, key="sitk/world", axes=a)
    # ---------------- 6. helpers
    with ctx.guard("normalize_flow"):
        ctx.bucket("helpers")
        ref = refs[0]
        size = torch.Size(int(k) for k in ref.n)
        g = torch.tensor(to_axes(ref, fields_w[0], GRID)[None], dtype=torch.float64)
        for acn, cube_axes in ((True, CORNERS), (False, CUBE)):
            want = to_axes(ref, fields_w[0], cube_axes)[None]
            got = U.normalize_flow(g, align_corners=acn)
            ctx.close("normalize_flow_is_grid_to_cube_vector_map", got, want, 1e-9 * (1 + np.abs(want).max()), key="helpers/normalize_flow", align_corners=acn)
            got2 = U.normalize_flow(g, size=size, align_corners=acn)
            ctx.close("normalize_flow_explicit_size", got2, want, 1e-9 * (1 + np.abs(want).max()), key="helpers/normalize_flow", align_corners=acn)
            back = U.denormalize_flow(got, align_corners=acn)
            ctx.close("denormalize_flow_inverts", back, g, 1e-9 * (1 + float(g.abs().max())), key="helpers/denormalize_flow", align_corners=acn)
            cl = U.normalize_flow(g.movedim(1, -1), size=size, align_corners=acn, channels_last=True)
            ctx.close("normalize_flow_channels_last", cl.movedim(-1, 1), want, 1e-9 * (1 + np.abs(want).max()), key="helpers/normalize_flow", align_corners=acn)
            # point helpers: inverse of each other; corner convention equals the grid's point map
            idx = torch.tensor(rng.uniform(0, 1, size=(1,) + tuple(int(k) for k in ref.n[::-1]) + (D,)) * (ref.n - 1), dtype=torch.float64)
            nx = normalize_grid(idx, align_corners=acn)
            ctx.close("denormalize_grid_inverts_normalize_grid", denormalize_grid(nx, align_corners=acn), idx, 1e-9 * (1 + float(idx.abs().max())), key="helpers/normalize_grid", align_corners=acn)
            if acn:
                ctx.close("normalize_grid_corners_is_point_map", nx, ref.points(idx.numpy(), GRID, CORNERS), 1e-9, key="helpers/normalize_grid", align_corners=acn)
            else:
                off = float((nx.numpy() - ref.points(idx.numpy(), GRID, CUBE)).mean())
                ctx.note_max("normalize_grid_align_corners_false_offset_vs_grid_cube_map_in_units_of_1_over_n", abs(off) * float(ref.n.mean()))
