r"""C16 — image similarity and overlap losses satisfy their defining axioms."""

from __future__ import annotations

import itertools

import numpy as np

PROPERTY = "C16"
RULE = (
    "Each case draws an input set (D in {2,3}, N, C in {1,2,3}, shapes 6..14, smooth-plus-noise images, a second "
    "image, binary and soft segmentations, masks of every documented broadcast shape (N,C,..), (1,C,..), (N,1,..), "
    "(1,1,..), affine intensity maps a x + b with a != 0, kernel sizes, bin counts) and evaluates about 25 relations "
    "between executions per loss, for the functional and the module form: value at identical inputs, documented "
    "range, symmetry, invariance, masked mean / irrelevance of values outside the mask, mask-shape acceptance vs "
    "explicit broadcast, normalisation factor, mean/sum vs none, Dice/Tversky identities, MI/NMI bounds. Masked "
    "means are recomputed independently with numpy. Non-trivial: every case; distinct = hash of shapes and options."
)
ASSUMPTIONS = [
    "metamorphic relations between executions of the same loss plus numpy masked means; an error shared by both sides of a relation is invisible",
    "float32 arithmetic: relative tolerance 2e-5 (1e-3 for the Parzen-window estimates)",
]
ANCHORS = [
    ("deepali.losses.functional", "masked_loss"),
    ("deepali.losses.functional", "reduce_loss"),
    ("deepali.losses.functional", "elementwise_loss"),
    ("deepali.losses.functional", "ssd_loss"),
    ("deepali.losses.functional", "ncc_loss"),
    ("deepali.losses.functional", "lcc_loss"),
    ("deepali.losses.functional", "wlcc_loss"),
    ("deepali.losses.functional", "mi_loss"),
    ("deepali.losses.functional", "dice_score"),
    ("deepali.losses.functional", "dice_loss"),
    ("deepali.losses.functional", "tversky_index"),
    ("deepali.losses.functional", "tversky_loss"),
    ("deepali.core.image", "dot_channels"),
    ("deepali.losses.base", "NormalizedPairwiseImageLoss.__init__"),
]
N_CASES = {"quick": 60, "thorough": 8000}
BUDGET = {"quick": 500, "thorough": 5400}
POINTWISE = ["mse_loss", "ssd_loss", "mae_loss", "l1_loss", "huber_loss", "smooth_l1_loss"]
MASK_SHAPES = ["NC", "1C", "N1", "11"]


def plan(tier, seed):
    return [["case", i] for i in range(N_CASES[tier])]


def mandatory(tier):
    out = [f"loss/{n}" for n in POINTWISE + ["ncc_loss", "lcc_loss", "wlcc_loss", "mi_loss", "nmi_loss", "dice", "tversky"]]
    out += [f"mask_shape/{m}" for m in MASK_SHAPES] + ["modules", "D/2", "D/3", "dice/absent_label", "wlcc/source_target_masks", "modules/norm_spellings", "soft_mask", "overlap_reductions", "max_difference/nested", "overlap/binarize", "modules/patchwise", "modules/reuse", "wlcc/mask_plus_one", "local/even_kernel", "mi_sampled/N1", "mi_sampled/11"] + [f"overlap/weight_shape/{f}/{t_}" for f in ("N...", "N1...", "NC...") for t_ in ("multiclass", "binary")]
    return out


def smooth(rng, shape):
    x = rng.normal(size=shape)
    for ax in range(2, len(shape)):
        x = x + np.roll(x, 1, axis=ax) + np.roll(x, -1, axis=ax)
    x = (x - x.min()) / (x.max() - x.min() + 1e-12)
    return 0.8 * x + 0.2 * rng.uniform(size=shape)


def run_item(ctx, item):
    import torch
    from deepali.losses import functional as LF
    from deepali.losses import image as LM

    i = item[1]
    rng = ctx.rng()
    D = 2 if i % 2 == 0 else 3
    N, C = int(rng.integers(1, 4)), int(rng.integers(1, 4))
    sp = tuple(int(rng.integers(6, 15 if D == 2 else 10)) for _ in range(D))
    shape = (N, C) + sp
    ctx.bucket(f"D/{D}")
    info = dict(D=D, shape=list(shape))
    ctx.nontriv(info, i)
    ctx.sample(info)
    t = lambda a: torch.tensor(np.asarray(a), dtype=torch.float32)  # noqa: E731
    x, y, z = t(smooth(rng, shape)), t(smooth(rng, shape)), t(smooth(rng, shape))
    masks = {}
    for ms in MASK_SHAPES:
        mshape = (N if ms[0] == "N" else 1, C if ms[1] == "C" else 1) + sp
        m = (rng.uniform(size=mshape) < 0.6).astype(np.float32)
        m.reshape(mshape[0], mshape[1], -1)[..., 0] = 1
        masks[ms] = t(m)
    REL = 2e-5

    def close(name, got, ref, key, scale=None, rel=REL, **kw):
        ref_t = ref if isinstance(ref, torch.Tensor) else torch.as_tensor(ref, dtype=torch.float64)
        s = float(ref_t.abs().max()) if scale is None else scale
        ctx.close(name, got, ref, rel * (1 + s), key=key, **kw, **info)

    # ------------------------------------------------------------------ pointwise losses
    for name in POINTWISE:
        fn = getattr(LF, name)
        ctx.bucket(f"loss/{name}")
        with ctx.guard(name, key=f"exc/{name}", loss=name, **info):
            for red in ("mean", "sum", "none"):
                v0 = fn(x, x, reduction=red)
                ctx.close("zero_for_identical_inputs", v0, torch.zeros_like(v0), 0.0, key=f"{name}/identity", reduction=red, **info)
            none = fn(x, y, reduction="none")
            ctx.true("none_keeps_shape", tuple(none.shape) == shape, key=f"{name}/none_shape", got=list(none.shape), **info)
            ctx.true("non_negative", bool((none >= 0).all()), key=f"{name}/range", **info)
            close("mean_is_mean_of_none", fn(x, y, reduction="mean"), none.double().mean(), f"{name}/reduction")
            close("sum_is_sum_of_none", fn(x, y, reduction="sum"), none.double().sum(), f"{name}/reduction")
            default = fn(x, y)
            want_default = none.double().sum() if name == "ssd_loss" else none.double().mean()
            close("default_reduction", default, want_default, f"{name}/default_reduction")
            close("symmetric", fn(y, x, reduction="none"), none, f"{name}/symmetry")
            k = float(rng.uniform(0.5, 4.0))
            close("norm_divides_loss", fn(x, y, norm=k), fn(x, y) / k, f"{name}/norm")
            close("tensor_norm_divides_loss", fn(x, y, norm=torch.tensor([k])), fn(x, y) / k, f"{name}/norm")
            for ms, m in masks.items():
                ctx.bucket(f"mask_shape/{ms}")
                with ctx.guard(f"{name}(mask)", key=f"exc/{name}/mask_shape={ms}", mask_shape=ms, **info):
                    me = m.expand(shape)
                    vm = fn(x, y, mask=m, reduction="mean")
                    want = (none.double() * me.double()).sum() / me.double().sum()
                    close("masked_mean_is_mean_over_mask", vm, want, f"{name}/masked_mean", mask_shape=ms)
                    vs = fn(x, y, mask=m, reduction="sum")
                    close("masked_sum_is_sum_over_mask", vs, (none.double() * me.double()).sum(), f"{name}/masked_sum", mask_shape=ms)
                    close("mask_shape_equals_explicit_broadcast", vm, fn(x, y, mask=me.contiguous(), reduction="mean"), f"{name}/mask_broadcast", mask_shape=ms)
                    x2 = torch.where(me > 0, x, z * 7 - 3)
                    y2 = torch.where(me > 0, y, z * -5 + 2)
                    close("values_outside_mask_are_ignored", fn(x2, y2, mask=m, reduction="mean"), vm, f"{name}/outside_mask", mask_shape=ms)
                    vn = fn(x, y, mask=m, reduction="none")
                    close("masked_none_is_mask_times_none", vn, none * me, f"{name}/masked_none", mask_shape=ms)
                    bm = m > 0
                    close("boolean_mask_equals_float_mask", fn(x, y, mask=bm, reduction="mean"), vm, f"{name}/bool_mask", mask_shape=ms)
                    # soft (non-binary) weights: the masked mean is sum(w * loss) / sum(w)
                    soft_m = m * t(rng.uniform(0.2, 1.0, size=tuple(m.shape)))
                    se = soft_m.expand(shape)
                    ctx.bucket("soft_mask")
                    close("soft_mask_weights_the_pointwise_loss", fn(x, y, mask=soft_m, reduction="mean"), (none.double() * se.double()).sum() / se.double().sum(), f"{name}/soft_mask", mask_shape=ms)
                    close("soft_mask_none_is_weight_times_none", fn(x, y, mask=soft_m, reduction="none"), none * se, f"{name}/soft_mask", mask_shape=ms)
    with ctx.guard("pointwise_options", key="exc/pointwise_options", **info):
        d = float(rng.uniform(0.05, 0.5))
        h = LF.huber_loss(x, y, delta=d, reduction="none")
        diff = (x - y).abs().double()
        want = torch.where(diff <= d, 0.5 * diff**2, d * (diff - 0.5 * d))
        close("huber_definition", h, want, "huber_loss/definition")
        s = LF.smooth_l1_loss(x, y, beta=d, reduction="none")
        close("smooth_l1_is_huber_over_beta", s, want / d, "smooth_l1_loss/definition")
        close("mse_is_mean_squared_difference", LF.mse_loss(x, y), ((x - y).double() ** 2).mean(), "mse_loss/definition")
        close("mae_is_mean_absolute_difference", LF.mae_loss(x, y), (x - y).double().abs().mean(), "mae_loss/definition")
    # ------------------------------------------------------------------ NCC
    a_, b_ = float(rng.choice([-3.0, -0.5, 0.25, 2.0, 10.0])), float(rng.uniform(-5, 5))
    with ctx.guard("ncc_loss", key="exc/ncc_loss", **info):
        ctx.bucket("loss/ncc_loss")
        none = LF.ncc_loss(x, y, reduction="none")
        ctx.true("ncc_none_is_per_image", tuple(none.shape) == (N,), key="ncc_loss/none_shape", got=list(none.shape), **info)
        ctx.true("ncc_range", bool(((none >= -1e-6) & (none <= 1 + 1e-6)).all()), key="ncc_loss/range", **info)
        close("ncc_identity", LF.ncc_loss(x, x, reduction="none"), torch.zeros(N), "ncc_loss/identity", rel=1e-5)
        close("ncc_symmetric", LF.ncc_loss(y, x, reduction="none"), none, "ncc_loss/symmetry")
        close("ncc_invariant_under_affine_intensity_map", LF.ncc_loss(a_ * x + b_, y, reduction="none"), none, "ncc_loss/invariance", rel=2e-4, a=a_, b=b_)
        close("ncc_invariant_under_affine_map_of_target", LF.ncc_loss(x, a_ * y + b_, reduction="none"), none, "ncc_loss/invariance", rel=2e-4, a=a_, b=b_)
        close("ncc_mean", LF.ncc_loss(x, y), none.double().mean(), "ncc_loss/reduction")
        close("ncc_sum", LF.ncc_loss(x, y, reduction="sum"), none.double().sum(), "ncc_loss/reduction")
        # independent formula
        xf, yf = x.double().reshape(N, -1), y.double().reshape(N, -1)
        xc, yc = xf - xf.mean(1, keepdim=True), yf - yf.mean(1, keepdim=True)
        want = 1 - (xc * yc).sum(1) ** 2 / ((xc**2).sum(1) * (yc**2).sum(1))
        close("ncc_definition", none, want, "ncc_loss/definition", rel=1e-4)
    with ctx.guard("ncc_loss(mask)", key="exc/ncc_loss/mask-given", **info):
        m = masks["NC"]
        vm = LF.ncc_loss(x, y, mask=m)
        x2 = torch.where(m > 0, x, z)
        close("ncc_values_outside_mask_are_ignored", LF.ncc_loss(x2, y, mask=m), vm, "ncc_loss/outside_mask")
    # ------------------------------------------------------------------ LCC / WLCC
    ks = int(rng.choice([3, 5]))
    for name in ("lcc_loss", "wlcc_loss"):
        fn = getattr(LF, name)
        ctx.bucket(f"loss/{name}")
        with ctx.guard(name, key=f"exc/{name}", **info):
            none = fn(x, y, kernel_size=ks, reduction="none")
            ctx.true("local_none_keeps_shape", tuple(none.shape) == shape, key=f"{name}/none_shape", got=list(none.shape), **info)
            ctx.true("local_range", bool(((none >= -1e-4) & (none <= 1 + 1e-4)).all()), key=f"{name}/range", lo=float(none.min()), hi=float(none.max()), **info)
            ident = fn(x, x, kernel_size=ks, reduction="none")
            ctx.close("local_identity", ident, torch.zeros_like(ident), 1e-3, key=f"{name}/identity", **info)
            close("local_symmetric", fn(y, x, kernel_size=ks, reduction="none"), none, f"{name}/symmetry", rel=1e-4)
            close("local_invariant_under_affine_intensity_map", fn(a_ * x + b_, y, kernel_size=ks, reduction="none"), none, f"{name}/invariance", rel=5e-3, a=a_, b=b_)
            close("local_mean", fn(x, y, kernel_size=ks), none.double().mean(), f"{name}/reduction")
            close("local_sum", fn(x, y, kernel_size=ks, reduction="sum"), none.double().sum(), f"{name}/reduction")
            for ms, m in masks.items():
                with ctx.guard(f"{name}(mask)", key=f"exc/{name}/mask_shape={ms}", mask_shape=ms, **info):
                    me = m.expand(shape)
                    vm = fn(x, y, mask=m, kernel_size=ks)
                    if name == "lcc_loss":
                        want = (none.double() * me.double()).sum() / me.double().sum()
                        close("windowed_loss_weights_local_scores_by_mask", vm, want, f"{name}/masked_mean", mask_shape=ms)
                    else:
                        nm = fn(x, y, mask=m, kernel_size=ks, reduction="none")
                        want = nm.double().sum() / me.double().sum()
                        close("windowed_loss_weights_local_scores_by_mask", vm, want, f"{name}/masked_mean", mask_shape=ms)
                    close("mask_shape_equals_explicit_broadcast", vm, fn(x, y, mask=me.contiguous(), kernel_size=ks), f"{name}/mask_broadcast", mask_shape=ms, rel=1e-4)
        if name == "wlcc_loss":
            with ctx.guard("wlcc(ones)", key="exc/wlcc_loss/ones", **info):
                ones = torch.ones(shape)
                close("wlcc_with_unit_masks_equals_lcc", LF.wlcc_loss(x, y, source_mask=ones, target_mask=ones, kernel_size=ks, reduction="none"), LF.lcc_loss(x, y, kernel_size=ks, reduction="none"), "wlcc_loss/unit_masks", rel=1e-3)
                # separate source / target masks (same tensors reused across calls, as a training loop does):
                # symmetric under swapping both images and both masks, mean of 'none', same value on every call
                sm = (torch.tensor(rng.uniform(size=shape)) < 0.8).float()
                tm = (torch.tensor(rng.uniform(size=shape)) < 0.8).float()
                ctx.bucket("wlcc/source_target_masks")
                w_none = LF.wlcc_loss(x, y, source_mask=sm, target_mask=tm, kernel_size=ks, reduction="none")
                w_mean = LF.wlcc_loss(x, y, source_mask=sm, target_mask=tm, kernel_size=ks)
                w_swap = LF.wlcc_loss(y, x, source_mask=tm, target_mask=sm, kernel_size=ks)
                w_again = LF.wlcc_loss(x, y, source_mask=sm, target_mask=tm, kernel_size=ks)
                close("wlcc_two_masks_same_value_on_every_call", w_again, w_mean, "wlcc_loss/two_masks", rel=1e-6)
                close("wlcc_two_masks_symmetric", w_swap, w_mean, "wlcc_loss/two_masks", rel=1e-4)
                # mask together with only one of the two mean masks: the other local mean stays unweighted (equivalent to
                # passing a mask of ones for it)
                ones_ = torch.ones_like(sm)
                wm_s = LF.wlcc_loss(x, y, mask=masks["N1"], source_mask=sm, kernel_size=ks)
                close("wlcc_mask_and_source_mask_leaves_target_mean_unweighted", wm_s, LF.wlcc_loss(x, y, mask=masks["N1"], source_mask=sm, target_mask=ones_, kernel_size=ks), "wlcc_loss/mask_plus_one", rel=1e-5)
                wm_t = LF.wlcc_loss(x, y, mask=masks["N1"], target_mask=tm, kernel_size=ks)
                close("wlcc_mask_and_target_mask_leaves_source_mean_unweighted", wm_t, LF.wlcc_loss(x, y, mask=masks["N1"], source_mask=ones_, target_mask=tm, kernel_size=ks), "wlcc_loss/mask_plus_one", rel=1e-5)
                ctx.bucket("wlcc/mask_plus_one")
                both = (sm * tm).expand_as(w_none)
                close("wlcc_two_masks_mean_is_masked_mean_of_none", w_mean, w_none.double().sum() / both.double().sum() if float(both.sum()) > 0 else w_mean, "wlcc_loss/two_masks", rel=1e-4)
    # even window sizes (the documentation only says the 'none' output then differs in shape from the input)
    for name in ("lcc_loss", "wlcc_loss"):
        fn = getattr(LF, name)
        kse = int(rng.choice([2, 4]))
        with ctx.guard(f"{name}(even kernel)", key=f"exc/{name}/even-kernel", kernel_size=kse, **info):
            ctx.bucket("local/even_kernel")
            ve = fn(x, y, kernel_size=kse)
            ctx.true("local_even_kernel_range", -1e-4 <= float(ve) <= 1 + 1e-4, key=f"{name}/even-kernel/range", value=float(ve), **info)
            close("local_even_kernel_identity", fn(x, x, kernel_size=kse), torch.zeros(()), f"{name}/even-kernel/identity", rel=1e-3)
            close("local_even_kernel_symmetric", fn(y, x, kernel_size=kse), ve, f"{name}/even-kernel/symmetry", rel=1e-4)
    # ------------------------------------------------------------------ MI / NMI
    x1, y1, z1 = x[:, :1].contiguous(), y[:, :1].contiguous(), z[:, :1].contiguous()
    bins = int(rng.choice([8, 16, 32]))
    for name, normalized in (("mi_loss", False), ("nmi_loss", True)):
        ctx.bucket(f"loss/{name}")
        with ctx.guard(name, key=f"exc/{name}", **info):
            f = (lambda a, b, **kw: LF.mi_loss(a, b, num_bins=bins, normalized=True, **kw)) if normalized else (lambda a, b, **kw: LF.mi_loss(a, b, num_bins=bins, **kw))
            v = f(x1, y1)
            close("mi_symmetric", f(y1, x1), v, f"{name}/symmetry", rel=1e-4)
            vxx = f(x1, x1)
            for other in (y1, z1, 1 - x1 * y1):
                ctx.true("mi_of_image_with_itself_is_maximal", float(vxx) <= float(f(x1, other)) + 1e-4, key=f"{name}/identity_maximal", value_self=float(vxx), value_other=float(f(x1, other)), **info)
            if normalized:
                ctx.true("nmi_range", -1e-3 <= float(v) <= 2 + 1e-3 and -1e-3 <= float(vxx) <= 2 + 1e-3, key="nmi_loss/range", value=float(v), **info)
                close("nmi_loss_is_mi_loss_normalized", LF.nmi_loss(x1, y1, num_bins=bins), v, "nmi_loss/alias")
            else:
                ctx.true("mi_loss_not_positive", float(v) <= 1e-3 and float(vxx) <= 1e-3, key="mi_loss/range", value=float(v), **info)
            for ms in ("N1", "11"):
                m = masks[ms]
                with ctx.guard(f"{name}(mask)", key=f"exc/{name}/mask_shape={ms}", **info):
                    vm = f(x1, y1, mask=m)
                    me = m.expand(x1.shape)
                    x2 = torch.where(me > 0, x1, z1)
                    y2 = torch.where(me > 0, y1, 1 - z1)
                    close("mi_values_outside_mask_are_ignored", f(x2, y2, mask=m, vmin=0.0, vmax=1.0), f(x1, y1, mask=m, vmin=0.0, vmax=1.0), f"{name}/outside_mask", mask_shape=ms, rel=1e-4)
                    close("mi_mask_shape_equals_explicit_broadcast", vm, f(x1, y1, mask=me.contiguous()), f"{name}/mask_broadcast", mask_shape=ms, rel=1e-4)
                    # random sub-sampling draws positions inside each item's own mask: with the generator re-seeded, values
                    # outside the masks cannot influence the loss
                    nvox = int(np.prod(x1.shape[2:]))
                    for skw in ({"num_samples": max(nvox // 3, 4)}, {"sample_ratio": 0.5}):
                        sd = int(rng.integers(0, 2**31 - 1))
                        torch.manual_seed(sd)
                        v_in = f(x1, y1, mask=m, vmin=0.0, vmax=1.0, **skw)
                        torch.manual_seed(sd)
                        v_out = f(x2, y2, mask=m, vmin=0.0, vmax=1.0, **skw)
                        close("mi_random_samples_come_from_inside_each_items_mask", v_out, v_in, f"{name}/sampled/outside_mask", mask_shape=ms, sampling=skw, rel=1e-5)
                        ctx.bucket(f"mi_sampled/{ms}")
    # ------------------------------------------------------------------ Dice / Tversky
    seg = t((rng.uniform(size=shape) < 0.4).astype(np.float32))
    seg2 = t((rng.uniform(size=shape) < 0.4).astype(np.float32))
    seg.reshape(N, C, -1)[..., 0] = 1
    seg2.reshape(N, C, -1)[..., 0] = 1
    soft, soft2 = x.clamp(0, 1), y.clamp(0, 1)
    w = masks["NC"]
    with ctx.guard("dice", key="exc/dice", **info):
        ctx.bucket("loss/dice")
        sc = LF.dice_score(seg, seg2, reduction="none")
        ctx.true("dice_none_shape", tuple(sc.shape) == (N, C), key="dice/none_shape", got=list(sc.shape), **info)
        close("dice_of_identical_binary_segmentations_is_one", LF.dice_score(seg, seg, reduction="none"), torch.ones(N, C), "dice/identity")
        close("dice_symmetric", LF.dice_score(seg2, seg, reduction="none"), sc, "dice/symmetry")
        ctx.true("dice_range", bool(((sc >= 0) & (sc <= 1 + 1e-6)).all()), key="dice/range", **info)
        inter = (seg * seg2).double().reshape(N, C, -1).sum(-1)
        want = 2 * inter / (seg.double().reshape(N, C, -1).sum(-1) + seg2.double().reshape(N, C, -1).sum(-1))
        close("dice_definition_on_binary_input", sc, want, "dice/definition")
        close("dice_loss_is_one_minus_score", LF.dice_loss(seg, seg2, reduction="none"), 1 - sc, "dice/loss")
        close("dice_loss_of_identical_is_zero", LF.dice_loss(seg, seg), torch.zeros(()), "dice/identity")
        # a label absent from both segmentations (empty channel, all-background item): still identical inputs
        e = seg.clone()
        e[:, int(rng.integers(0, C))] = 0
        e[int(rng.integers(0, N))] = 0
        ctx.bucket("dice/absent_label")
        close("dice_of_identical_segmentations_with_absent_label_is_one", LF.dice_score(e, e, reduction="none"), torch.ones(N, C), "dice/identity")
        close("dice_loss_of_identical_with_absent_label_is_zero", LF.dice_loss(e, e), torch.zeros(()), "dice/identity")
        close("tversky_of_identical_with_absent_label_is_one", LF.tversky_index(e, e, alpha=0.5, beta=0.5, reduction="none"), torch.ones(N, C), "tversky/identity")
        close("dice_mean", LF.dice_score(seg, seg2), sc.double().mean(), "dice/reduction")
        close("dice_sum", LF.dice_score(seg, seg2, reduction="sum"), sc.double().sum(), "dice/reduction")
        scw = LF.dice_score(seg, seg2, weight=w, reduction="none")
        interw = (seg * seg2 * w).double().reshape(N, C, -1).sum(-1)
        wantw = 2 * interw / ((seg * w).double().reshape(N, C, -1).sum(-1) + (seg2 * w).double().reshape(N, C, -1).sum(-1))
        close("weighted_dice_definition", scw, wantw, "dice/weight")
        # every documented weight shape - (N, ..., X), (N, 1, ..., X), (N, C, ..., X) - for multi-class and for binary
        # single-channel predictions: the weighted definition with the weight broadcast over the channels
        wn1 = masks["N1"]
        for tag, p_, q_ in (("multiclass", seg, seg2), ("binary", seg[:, :1].contiguous(), seg2[:, :1].contiguous())):
            Cc = p_.shape[1]
            tag = "binary" if Cc == 1 else tag
            forms = {"N...": wn1[:, 0], "N1...": wn1, "NC...": wn1.expand(N, Cc, *wn1.shape[2:]).contiguous()}
            for form, wt in forms.items():
                with ctx.guard("tversky_index(weight)", key=f"exc/tversky/weight_shape={form}/{tag}", **info):
                    # (Tversky with alpha = beta = 1/2 on binary inputs is the weighted Dice; dice_score itself documents
                    # the full (N, C, ..., X) weight shape only)
                    got_w = LF.tversky_index(p_, q_, weight=wt, reduction="none")
                    if form == "NC...":
                        close("weighted_dice_accepts_full_weight_shape", LF.dice_score(p_, q_, weight=wt, reduction="none"), got_w, f"dice/weight_shape/{tag}", weight_shape=form)
                    we = wn1.expand(N, Cc, *wn1.shape[2:])
                    iw = (p_ * q_ * we).double().reshape(N, Cc, -1).sum(-1)
                    ww = 2 * iw / ((p_ * we).double().reshape(N, Cc, -1).sum(-1) + (q_ * we).double().reshape(N, Cc, -1).sum(-1))
                    ok_rows = ((p_ * we).double().reshape(N, Cc, -1).sum(-1) + (q_ * we).double().reshape(N, Cc, -1).sum(-1)) > 0
                    close("weighted_overlap_accepts_documented_weight_shape", got_w[ok_rows], ww[ok_rows], f"tversky/weight_shape/{tag}", weight_shape=form)
                    ctx.bucket(f"overlap/weight_shape/{form}/{tag}")
        ssc = LF.dice_score(soft, soft2, reduction="none")
        close("soft_dice_symmetric", LF.dice_score(soft2, soft, reduction="none"), ssc, "dice/symmetry")
        ctx.true("soft_dice_range", bool(((ssc >= 0) & (ssc <= 1 + 1e-6)).all()), key="dice/range", **info)
    with ctx.guard("tversky", key="exc/tversky_index", **info):
        ctx.bucket("loss/tversky")
        if C >= 2:
            ti = LF.tversky_index(seg, seg2, alpha=0.5, beta=0.5, reduction="none")
            close("tversky_half_half_on_binary_input_equals_dice", ti, LF.dice_score(seg, seg2, reduction="none"), "tversky/dice")
            close("tversky_default_is_half_half", LF.tversky_index(seg, seg2, reduction="none"), ti, "tversky/default")
            close("tversky_of_identical_binary_is_one", LF.tversky_index(seg, seg, reduction="none"), torch.ones(N, C), "tversky/identity")
            close("tversky_symmetric_for_equal_weights", LF.tversky_index(seg2, seg, alpha=0.5, beta=0.5, reduction="none"), ti, "tversky/symmetry")
            al = float(rng.uniform(0.1, 0.9))
            t_ab = LF.tversky_index(seg, seg2, alpha=al, beta=1 - al, reduction="none")
            close("tversky_swapping_arguments_swaps_weights", LF.tversky_index(seg2, seg, alpha=1 - al, beta=al, reduction="none"), t_ab, "tversky/swap")
            close("tversky_alpha_only_sets_beta", LF.tversky_index(seg, seg2, alpha=al, reduction="none"), t_ab, "tversky/default")
            ctx.true("tversky_range", bool(((t_ab >= 0) & (t_ab <= 1 + 1e-6)).all()), key="tversky/range", **info)
        b1, b2 = seg[:, :1].contiguous(), seg2[:, :1].contiguous()
        tb = LF.tversky_index(b1, b2, reduction="none")
        close("binary_tversky_equals_dice", tb, LF.dice_score(b1, b2, reduction="none"), "tversky/dice")
        close("tversky_label_target_equals_channel_target", LF.tversky_index(b1, b2[:, 0], reduction="none"), tb, "tversky/target_form")
        # binary problem in mixed channel forms: a one-channel (foreground) operand against the two-channel one-hot form of the other
        oh1, oh2 = torch.cat([1 - b1, b1], 1), torch.cat([1 - b2, b2], 1)
        close("tversky_foreground_prediction_vs_one_hot_target", LF.tversky_index(b1, oh2, reduction="none"), tb, "tversky/target_form/one_hot_target")
        close("tversky_two_channel_prediction_vs_foreground_target", LF.tversky_index(oh1, b2, reduction="none"), tb, "tversky/target_form/one_hot_prediction")
    with ctx.guard("tversky_loss", key="exc/tversky_loss", **info):
        b1, b2 = seg[:, :1].contiguous(), seg2[:, :1].contiguous()
        tb = LF.tversky_index(b1, b2, reduction="none")
        close("tversky_loss_is_one_minus_index", LF.tversky_loss(b1, b2, reduction="none"), 1 - tb, "tversky/loss")
        close("tversky_loss_of_identical_is_zero", LF.tversky_loss(b1, b1), torch.zeros(()), "tversky/identity")
        close("focal_tversky_loss", LF.tversky_loss(b1, b2, gamma=2, reduction="none"), (1 - tb) ** 2, "tversky/gamma")
        # binarize=True thresholds the probabilities first: identical binary segmentations from unsaturated logits
        lgu = (b1 * 2 - 1) * float(rng.uniform(0.2, 1.5))
        close("tversky_loss_with_logits_binarized_identical_is_zero", LF.tversky_loss_with_logits(lgu, b1, binarize=True), torch.zeros(()), "tversky/logits/binarize", rel=1e-5)
        close("tversky_index_with_logits_binarized_identical_is_one", LF.tversky_index_with_logits(lgu, b1, binarize=True, reduction="none"), torch.ones_like(tb), "tversky/logits/binarize", rel=1e-5)
        lgo = (b2 * 2 - 1) * float(rng.uniform(0.2, 1.5))
        close("tversky_loss_with_logits_binarized_is_one_minus_binary_index", LF.tversky_loss_with_logits(lgo, b1, binarize=True, reduction="none"), 1 - LF.tversky_index(b2, b1, reduction="none"), "tversky/logits/binarize", rel=1e-5)
        ctx.bucket("overlap/binarize")
        lg = (b1 * 2 - 1) * 20
        close("tversky_loss_with_logits_of_confident_prediction", LF.tversky_loss_with_logits(lg, b1), torch.zeros(()), "tversky/logits", rel=1e-4)
        close("tversky_index_with_logits", LF.tversky_index_with_logits(lg, b2, reduction="none"), tb, "tversky/logits", rel=1e-4)
        # reductions of the *_with_logits variants and of the focal exponent: mean / sum of the 'none' output
        lg2 = t(rng.normal(size=tuple(seg.shape)) * 2)
        for fname, kw in (("tversky_loss_with_logits", {}), ("tversky_loss_with_logits", {"gamma": 2.0}), ("tversky_index_with_logits", {}), ("tversky_loss", {"gamma": 2.0}), ("dice_loss", {}), ("tversky_index", {"alpha": 0.3, "beta": 0.7})):
            fn_ = getattr(LF, fname)
            a_ = lg2 if fname.endswith("with_logits") else (seg * 0.8 + 0.1)
            none_ = fn_(a_, seg2, reduction="none", **kw)
            ctx.bucket("overlap_reductions")
            close("overlap_mean_is_mean_of_none", fn_(a_, seg2, reduction="mean", **kw), none_.double().mean(), f"{fname}/reduction", options=kw)
            close("overlap_sum_is_sum_of_none", fn_(a_, seg2, reduction="sum", **kw), none_.double().sum(), f"{fname}/reduction", options=kw)
            if fname.startswith("tversky_loss"):
                ti_ = getattr(LF, fname.replace("loss", "index"))(a_, seg2, reduction="none", **{k_: v_ for k_, v_ in kw.items() if k_ != "gamma"})
                close("tversky_loss_is_complement_to_the_power_gamma", none_, (1 - ti_) ** kw.get("gamma", 1.0), f"{fname}/gamma", options=kw)
    # ------------------------------------------------------------------ module wrappers pass options through
    with ctx.guard("modules", key="exc/modules", **info):
        ctx.bucket("modules")
        m = masks["N1"]
        k = float(rng.uniform(0.5, 4.0))
        d = float(rng.uniform(0.05, 0.5))
        pairs = [
            ("L1ImageLoss", LM.L1ImageLoss(norm=k), lambda a, b, **kw: LF.mae_loss(a, b, norm=k, **kw)),
            ("MAE", LM.MAE(norm=False), lambda a, b, **kw: LF.mae_loss(a, b, **kw)),
            ("L2ImageLoss", LM.L2ImageLoss(norm=k), lambda a, b, **kw: LF.mse_loss(a, b, norm=k, **kw)),
            ("MSE", LM.MSE(norm=False), lambda a, b, **kw: LF.mse_loss(a, b, **kw)),
            ("SSD", LM.SSD(norm=k), lambda a, b, **kw: LF.ssd_loss(a, b, norm=k, **kw)),
            ("HuberImageLoss", LM.HuberImageLoss(norm=k, delta=d), lambda a, b, **kw: LF.huber_loss(a, b, norm=k, delta=d, **kw)),
            ("HuberImageLoss(beta)", LM.HuberImageLoss(norm=False, beta=d), lambda a, b, **kw: LF.huber_loss(a, b, delta=d, **kw)),
            ("SmoothL1ImageLoss", LM.SmoothL1ImageLoss(norm=k, beta=d), lambda a, b, **kw: LF.smooth_l1_loss(a, b, norm=k, beta=d, **kw)),
            ("SmoothL1ImageLoss(delta)", LM.SmoothL1ImageLoss(norm=False, delta=d), lambda a, b, **kw: LF.smooth_l1_loss(a, b, beta=d, **kw)),
            ("LCC", LM.LCC(kernel_size=ks), lambda a, b, **kw: LF.lcc_loss(a, b, kernel_size=ks, **kw)),
            ("WLCC", LM.WLCC(kernel_size=ks), lambda a, b, **kw: LF.wlcc_loss(a, b, kernel_size=ks, **kw)),
            ("Dice", LM.Dice(), lambda a, b, mask=None: LF.dice_loss(a, b, weight=mask)),
        ]
        for mname, mod, fn in pairs:
            a, b = (seg, seg2) if mname == "Dice" else (x, y)
            mm = masks["NC"] if mname == "Dice" else m
            close("module_equals_functional", mod(a, b), fn(a, b), f"modules/{mname}", module=mname)
            close("module_with_mask_equals_functional", mod(a, b, mask=mm), fn(a, b, mask=mm), f"modules/{mname}/mask", module=mname)
        close("NCC_module", LM.NCC()(x, y), LF.ncc_loss(x, y), "modules/NCC")
        close("MI_module", LM.MI(num_bins=bins)(x1, y1), LF.mi_loss(x1, y1, num_bins=bins), "modules/MI", rel=1e-4)
        close("MI_module_bins_alias", LM.MI(bins=bins)(x1, y1, mask=masks["N1"]), LF.mi_loss(x1, y1, num_bins=bins, mask=masks["N1"]), "modules/MI/mask", rel=1e-4)
        close("NMI_module", LM.NMI(num_bins=bins)(x1, y1), LF.nmi_loss(x1, y1, num_bins=bins), "modules/NMI", rel=1e-4)
        # a loss module is reused for every batch of an epoch: the second pair (other intensity range) gets the value the
        # functional form gives for that pair
        for mname, mk, fk in (("MI", lambda: LM.MI(num_bins=bins), lambda a, b: LF.mi_loss(a, b, num_bins=bins)), ("NMI", lambda: LM.NMI(num_bins=bins), lambda a, b: LF.nmi_loss(a, b, num_bins=bins)), ("NCC", lambda: LM.NCC(), lambda a, b: LF.ncc_loss(a, b)), ("LCC", lambda: LM.LCC(kernel_size=ks), lambda a, b: LF.lcc_loss(a, b, kernel_size=ks)), ("MSE", lambda: LM.MSE(norm=False), lambda a, b: LF.mse_loss(a, b))):
            mod_ = mk()
            mod_(x1, y1)
            a2, b2 = x1 * 3.0 + 2.0, z1 * 0.5 - 1.0
            close("module_second_call_equals_functional", mod_(a2, b2), fk(a2, b2), f"modules/{mname}/reuse", rel=1e-4)
            close("module_first_pair_again_equals_functional", mod_(x1, y1), fk(x1, y1), f"modules/{mname}/reuse", rel=1e-4)
        ctx.bucket("modules/reuse")
        # option aliases readable under either name
        ctx.true("module_option_aliases", LM.HuberImageLoss(delta=d).beta == d and LM.HuberImageLoss(beta=d).delta == d and LM.SmoothL1ImageLoss(beta=d).delta == d and LM.SmoothL1ImageLoss(delta=d).beta == d and LM.MI(bins=bins).bins == bins and LM.MI(num_bins=bins).num_bins == bins and LM.NMI(num_bins=bins).normalized is True and LM.MI().normalized is False, key="modules/aliases")
        if D == 3:
            # patch-wise evaluation: 2-D patches cut out of the volumes at normalised coordinates, each patch one image
            # of the batch handed to the wrapped loss; identical volumes give its minimum, the order of arguments is kept
            import torch.nn.functional as TF

            ctx.bucket("modules/patchwise")
            P = int(rng.integers(1, 4))
            zs = rng.uniform(-0.8, 0.8, size=P)
            yy, xx = np.meshgrid(np.linspace(-0.7, 0.7, 5), np.linspace(-0.6, 0.6, 6), indexing="ij")
            pts = np.stack([np.stack([xx, yy, np.full_like(xx, z)], axis=-1) for z in zs])[None]  # (1, P, 5, 6, 3)
            patches = t(np.broadcast_to(pts, (N,) + pts.shape[1:]).copy())
            for inner_name, inner, fn_ in (("SSD", LM.SSD(), LF.ssd_loss), ("MAE", LM.MAE(norm=False), LF.mae_loss)):
                pl = LM.PatchwiseImageLoss(patches, inner)
                sx = TF.grid_sample(x, patches, mode="bilinear", padding_mode="border", align_corners=True)
                sy = TF.grid_sample(y, patches, mode="bilinear", padding_mode="border", align_corners=True)
                rs = lambda v: v.permute(0, 2, 1, 3, 4).reshape(N * P, v.shape[1], 1, 5, 6)  # noqa: E731
                close("patchwise_loss_is_inner_loss_of_sampled_patches", pl(x, y), fn_(rs(sx), rs(sy)), f"modules/patchwise/{inner_name}", rel=1e-4)
                close("patchwise_loss_of_identical_volumes_is_zero", pl(x, x), torch.zeros(()), f"modules/patchwise/{inner_name}", rel=1e-6)
                close("patchwise_loss_symmetric", pl(y, x), pl(x, y), f"modules/patchwise/{inner_name}", rel=1e-5)
        # implicit normalisation factor from the images
        from deepali.core.math import max_difference

        nm = LM.MSE(x, y)
        close("implicit_norm_is_squared_max_difference", nm(x, y), LF.mse_loss(x, y, norm=max_difference(x, y).square()), "modules/implicit_norm")
        # every documented spelling of the norm option, for every module that takes it
        md2 = max_difference(x, y).square()
        # documented meaning: the largest possible |s_i - t_j| - computed here from the extremes, for images whose ranges
        # overlap, are disjoint, and are nested
        for a_, b_, rel_ in ((x, y, "overlap"), (x, y + 10, "disjoint"), (x * 3, y * 0.2 + 1.0, "nested")):
            want_md = max(float(a_.max() - b_.min()), float(b_.max() - a_.min()))
            ctx.bucket("max_difference/" + rel_)
            close("max_difference_is_largest_possible_difference", max_difference(a_, b_), want_md, "max_difference", relation=rel_)
            close("implicit_norm_uses_largest_possible_difference", LM.MSE(a_, b_)(a_, b_), LF.mse_loss(a_, b_, norm=want_md**2), "modules/implicit_norm", relation=rel_)
        for mname, cls, fn, ekw in (("MSE", LM.MSE, LF.mse_loss, {}), ("SSD", LM.SSD, LF.ssd_loss, {}), ("MAE", LM.MAE, LF.mae_loss, {}), ("HuberImageLoss", LM.HuberImageLoss, LF.huber_loss, {"delta": d}), ("SmoothL1ImageLoss", LM.SmoothL1ImageLoss, LF.smooth_l1_loss, {"beta": d})):
            ctx.bucket("modules/norm_spellings")
            close("norm_true_uses_the_images", cls(x, y, norm=True, **ekw)(x, y), fn(x, y, norm=md2, **ekw), f"modules/{mname}/norm", module=mname, norm="True")
            close("norm_none_uses_the_images", cls(x, y, norm=None, **ekw)(x, y), fn(x, y, norm=md2, **ekw), f"modules/{mname}/norm", module=mname, norm="None")
            close("norm_false_is_one", cls(x, y, norm=False, **ekw)(x, y), fn(x, y, **ekw), f"modules/{mname}/norm", module=mname, norm="False")
            close("norm_true_without_images_is_one", cls(norm=True, **ekw)(x, y), fn(x, y, **ekw), f"modules/{mname}/norm", module=mname, norm="True, no images")
            close("norm_from_target_only", cls(target=y, **ekw)(x, y), fn(x, y, norm=max_difference(y, y).square(), **ekw), f"modules/{mname}/norm", module=mname, norm="target only")
