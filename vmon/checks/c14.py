r"""C14 — cubic B-spline evaluation, derivatives and subdivision are exact."""

from __future__ import annotations

import itertools

import numpy as np

from ..oracle import spline as S

PROPERTY = "C14"
RULE = (
    "Exhaustive part: interpolation weight tables for every stride 1..16 x derivative order 0..3 x {float32, "
    "float64} against the textbook piecewise-polynomial basis (value, partition of unity, zero-sum derivative "
    "weights, linear precision), and 1-D evaluation for every image size 1..64 x stride 1..16 x both algorithms "
    "(output length, random coefficients vs tensor-product oracle, linear precision). Sampled part: D in {2,3} with "
    "non-divisible size/stride pairs, derivative orders 0..3 per axis, batch and channel counts 1..3, agreement of "
    "the two evaluation algorithms, FreeFormDeformation linear precision, and function invariance under "
    "subdivide_cubic_bspline / FreeFormDeformation.grid_(2n-1), repeated twice. Non-trivial: every evaluation with "
    "random coefficients; distinct = hash of (D, size, stride, derivative, N, C)."
)
ASSUMPTIONS = [
    "oracle vmon.oracle.spline: piecewise polynomials on half-open knot intervals, control point m at lattice coordinate m - 1",
    "non-transposed path float64-exact (1e-12); transposed path uses a float32 kernel (2e-6 relative)",
]
ANCHORS = [
    ("deepali.core.bspline", "cubic_bspline_interpolation_weights"),
    ("deepali.core.bspline", "bspline_interpolation_weights"),
    ("deepali.core.bspline", "evaluate_cubic_bspline"),
    ("deepali.core.bspline", "subdivide_cubic_bspline"),
    ("deepali.core.bspline", "cubic_bspline_control_point_grid_size"),
    ("deepali.core.bspline", "cubic_bspline_control_point_grid"),
    ("deepali.core.kernels", "cubic_bspline1d"),
    ("deepali.core.kernels", "cubic_bspline_value"),
    ("deepali.spatial.bspline", "BSplineTransform.grid_"),
    ("deepali.spatial.bspline", "BSplineTransform.evaluate_spline"),
]
N_CASES = {"quick": 120, "thorough": 15000}
BUDGET = {"quick": 400, "thorough": 3600}
MAX_SIZE_1D = 64
STRIDES = list(range(1, 17))


def plan(tier, seed):
    items = [["weights"]]
    items += [["line", lo, min(lo + 3, MAX_SIZE_1D)] for lo in range(1, MAX_SIZE_1D + 1, 4)]
    items += [["case", i] for i in range(N_CASES[tier])]
    return items


def mandatory(tier):
    out = [f"weights/stride={s}" for s in STRIDES] + [f"weights/derivative={d}" for d in range(4)]
    out += ["line/transpose=False", "line/transpose=True", "D/2", "D/3", "derivative>0", "subdivide", "spatial_derivatives/bspline", "spatial_derivatives/bspline/repeated_axis", "ffd_grid_", "ffd_grid_copy/parameter", "ffd_grid_copy/buffer", "ffd_linear", "algorithms_agree", "nondivisible", "control_point_grid"]
    return out


def run_item(ctx, item):
    if item[0] == "weights":
        return weights(ctx)
    if item[0] == "line":
        return line(ctx, item[1], item[2])
    return case(ctx, item[1])


def weights(ctx):
    import torch
    from deepali.core.bspline import bspline_interpolation_weights, cubic_bspline_interpolation_weights

    for s, d, dtype in itertools.product(STRIDES, range(4), (torch.float32, torch.float64)):
        info = dict(stride=s, derivative=d, dtype=str(dtype))
        with ctx.guard("cubic_bspline_interpolation_weights", **info):
            w = cubic_bspline_interpolation_weights(s, derivative=d, dtype=dtype)
            ctx.bucket(f"weights/stride={s}")
            ctx.bucket(f"weights/derivative={d}")
            ctx.nontriv("weights", s, d, str(dtype))
            ok = ctx.true("weights_shape", tuple(w.shape) == (s, 4), key="weights/shape", got=list(w.shape), **info)
            if not ok:
                continue
            r = np.arange(s, dtype=np.float64)[:, None] / s
            k = np.arange(4, dtype=np.float64)[None, :]
            ref = S.basis(r - (k - 1), d)
            tol = 1e-14 if dtype == torch.float64 else 2e-6
            ctx.close("weights_vs_analytic_basis", w, ref, tol * 8, key="weights/values", **info)
            rows = w.double().numpy().sum(axis=1)
            ctx.close("weights_partition_of_unity_or_zero_sum", rows, np.full(s, 1.0 if d == 0 else 0.0), tol * 16, key="weights/sum", **info)
            # linear precision: sum_k w[r, k] (k - 1) = r/s (value), 1 (first derivative), 0 (higher)
            lin = (w.double().numpy() * (k - 1)).sum(axis=1)
            want = r[:, 0] if d == 0 else np.full(s, 1.0 if d == 1 else 0.0)
            ctx.close("weights_linear_precision", lin, want, tol * 32, key="weights/linear", **info)
        if d == 0:
            with ctx.guard("bspline_interpolation_weights", **info):
                w2 = bspline_interpolation_weights(degree=3, stride=s, dtype=dtype)
                ctx.close("generic_weights_equal_cubic", w2, w, 0.0, key="weights/generic", **info)
    # tuple forms
    with ctx.guard("cubic_bspline_interpolation_weights(tuple)"):
        ws = cubic_bspline_interpolation_weights((2, 3, 5), derivative=(0, 1, 2), dtype=torch.float64)
        ctx.true("weights_tuple_form", len(ws) == 3 and [tuple(w.shape) for w in ws] == [(2, 4), (3, 4), (5, 4)], key="weights/shape")
        for w, s, d in zip(ws, (2, 3, 5), (0, 1, 2)):
            ctx.close("weights_tuple_values", w, cubic_bspline_interpolation_weights(s, derivative=d, dtype=torch.float64), 0.0, key="weights/values")


def ctrl_size(n, s):
    r"""Independent count of control points: one before index 0, spacing s, enough to cover index n - 1 plus two."""
    # sample n-1 lies in knot interval j = floor((n-1)/s); needs control points j .. j+3  ->  j + 4 points
    return (n - 1) // s + 4


def line(ctx, lo, hi):
    import torch
    from deepali.core.bspline import cubic_bspline_control_point_grid_size, evaluate_cubic_bspline

    rng = ctx.rng()
    for n in range(lo, hi + 1):
        for s in STRIDES:
            info = dict(size=n, stride=s)
            with ctx.guard("cubic_bspline_control_point_grid_size", **info):
                M = cubic_bspline_control_point_grid_size(n, s)
                # enough control points to evaluate every sample (the minimum is ctrl_size); never fewer
                ctx.true("control_grid_large_enough", int(M) >= ctrl_size(n, s), key="ctrl_size/too_small", got=int(M), need=ctrl_size(n, s), **info)
                ctx.true("control_grid_not_wasteful", int(M) <= ctrl_size(n, s) + 1, key="ctrl_size/too_large", got=int(M), need=ctrl_size(n, s), **info)
            M = int(M)
            coef = rng.normal(size=(2, 2, M))
            lin = 0.3 * (np.arange(M) - 1) * s + 0.7
            for transpose in (False, True):
                info = dict(size=n, stride=s, transpose=transpose)
                ctx.bucket(f"line/transpose={transpose}")
                with ctx.guard("evaluate_cubic_bspline(1d)", **info):
                    dt = torch.float32 if transpose else torch.float64
                    out = evaluate_cubic_bspline(torch.tensor(coef, dtype=dt), stride=s, shape=(n,), transpose=transpose)
                    ok = ctx.true("evaluated_shape_covers_image", tuple(out.shape) == (2, 2, n), key="evaluate/shape", got=list(out.shape), **info)
                    if not ok:
                        continue
                    ref = S.evaluate(coef, (n,), (s,))
                    tol = 4e-6 * (1 + np.abs(coef).max()) if transpose else 1e-12
                    ctx.close("evaluate_1d_vs_oracle", out, ref, tol, key=f"evaluate/values/transpose={transpose}", **info)
                    o2 = evaluate_cubic_bspline(torch.tensor(lin[None, None], dtype=dt), stride=s, shape=(n,), transpose=transpose)
                    ctx.close("evaluate_1d_linear_precision", o2[0, 0], 0.3 * np.arange(n) + 0.7, 4e-6 * (1 + abs(lin).max()) if transpose else 1e-12 * (1 + abs(lin).max()), key="evaluate/linear", **info)
            ctx.nontriv("line", n, s)


def case(ctx, i):
    import torch
    from deepali.core.bspline import cubic_bspline_control_point_grid_size, evaluate_cubic_bspline, subdivide_cubic_bspline
    from deepali.core.grid import Grid
    from deepali.spatial import FreeFormDeformation

    rng = ctx.rng()
    D = int(rng.choice([2, 3]))
    ctx.bucket(f"D/{D}")
    shape = tuple(int(rng.integers(1, 25 if D == 2 else 12)) for _ in range(D))
    if i % 5 == 0:
        shape = tuple(int(rng.integers(1, 4)) for _ in range(D))  # tiny images
    stride = tuple(int(rng.integers(1, 17 if D == 2 else 7)) for _ in range(D))  # (sx, ...)
    N, C = int(rng.integers(1, 4)), int(rng.integers(1, 4))
    if any(n % s for n, s in zip(shape[::-1], stride)):
        ctx.bucket("nondivisible")
    desc = dict(D=D, shape=list(shape), stride=list(stride), N=N, C=C)
    ctx.nontriv(desc)
    ctx.sample(desc)
    with ctx.guard("cubic_bspline_control_point_grid_size", **desc):
        cs = cubic_bspline_control_point_grid_size(shape, stride[::-1])
        ctx.true("control_grid_size_nd", all(int(m) >= ctrl_size(n, s) for m, n, s in zip(cs, shape, stride[::-1])), key="ctrl_size/too_small", got=list(cs), **desc)
    cs = tuple(int(m) for m in cs)
    coef = rng.normal(size=(N, C) + cs)
    ct = torch.tensor(coef, dtype=torch.float64)
    # ---- values and derivatives, non-transposed algorithm
    derivs = [(0,) * D] + [tuple(int(rng.integers(0, 4)) for _ in range(D)) for _ in range(3)]
    for der in derivs:
        info = dict(derivative=list(der), **desc)
        with ctx.guard("evaluate_cubic_bspline", **info):
            out = evaluate_cubic_bspline(ct, stride=stride, shape=shape, derivative=der)
            if any(der):
                ctx.bucket("derivative>0")
            ok = ctx.true("evaluated_shape_covers_image", tuple(out.shape) == (N, C) + shape, key="evaluate/shape", got=list(out.shape), **info)
            if ok:
                ref = S.evaluate(coef, shape, stride, der)
                ctx.close("evaluate_nd_vs_oracle", out, ref, 1e-11 * (1 + np.abs(ref).max()), key="evaluate/values/transpose=False", **info)
    # ---- derivative mode of the image functions: analytic spline derivatives, divided by spacing^order per axis
    if all(m >= 4 for m in cs):
        with ctx.guard("spatial_derivatives(bspline)", key="exc/spatial_derivatives", **desc):
            from deepali.core.image import spatial_derivatives

            ctx.bucket("spatial_derivatives/bspline")
            ax_ = "xyz"[:D]
            sp = rng.uniform(0.4, 2.5, size=D).astype(np.float32).astype(np.float64)
            keys = []
            for _ in range(4):
                od = [int(rng.integers(0, 4)) for _ in range(D)]
                if sum(od) == 0 or sum(od) > 4:
                    od = [0] * D
                    od[int(rng.integers(0, D))] = int(rng.integers(2, 4))
                keys.append("".join(a * k for a, k in zip(ax_, od)))
            keys = sorted(set(keys + [ax_[0] * 2, ax_[-1] * 3]))
            got = spatial_derivatives(ct, which=keys, mode="bspline", spacing=tuple(float(q) for q in sp), stride=stride)
            oshape = tuple((m - 3) * s_ for m, s_ in zip(cs, stride[::-1]))
            for key in keys:
                od = [key.count(a) for a in ax_]
                ref = S.evaluate(coef, oshape, stride, od) / float(np.prod(sp ** np.asarray(od)))
                if ctx.true("bspline_derivative_shape", tuple(got[key].shape[2:]) == oshape, key="spatial_derivatives/shape", got=list(got[key].shape), want=list(oshape), **desc):
                    ctx.close("bspline_derivative_mode_vs_analytic", got[key], ref, 2e-6 * (1 + np.abs(ref).max()), key="spatial_derivatives/bspline", entry=key, spacing=sp.tolist(), **desc)
                if max(od) >= 2:
                    ctx.bucket("spatial_derivatives/bspline/repeated_axis")
    # size= argument (x, ...) order
    with ctx.guard("evaluate_cubic_bspline(size=)", **desc):
        out = evaluate_cubic_bspline(ct, stride=stride, size=shape[::-1])
        ctx.true("size_argument_order", tuple(out.shape) == (N, C) + shape, key="evaluate/shape", got=list(out.shape), **desc)
    # ---- the two algorithms agree
    with ctx.guard("evaluate_cubic_bspline(transpose)", **desc):
        ctx.bucket("algorithms_agree")
        a = evaluate_cubic_bspline(ct.float(), stride=stride, shape=shape, transpose=False)
        b = evaluate_cubic_bspline(ct.float(), stride=stride, shape=shape, transpose=True)
        ok = ctx.true("transposed_shape_covers_image", tuple(b.shape) == (N, C) + shape, key="evaluate/shape", got=list(b.shape), **desc)
        if ok:
            ctx.close("two_algorithms_agree", b, a, 1e-5 * (1 + np.abs(coef).max()), key="evaluate/agree", **desc)
            ctx.close("transposed_vs_oracle", b, S.evaluate(coef, shape, stride), 1e-5 * (1 + np.abs(coef).max()), key="evaluate/values/transpose=True", **desc)
    # ---- free-form deformation: linear precision and grid refinement
    if all(n >= 2 for n in shape):
        for transpose in (False, True):
            info = dict(transpose=transpose, **desc)
            with ctx.guard("FreeFormDeformation", **info):
                ctx.bucket("ffd_linear")
                grid = Grid(shape=shape, align_corners=True)
                ffd = FreeFormDeformation(grid, groups=N, params=False, stride=stride, transpose=transpose)
                pshape = tuple(ffd.data_shape)
                ctx.true("ffd_data_shape", pshape == (D,) + cs, key="ffd/data_shape", got=list(pshape), want=[D] + list(cs), **info)
                A = rng.normal(size=(N, D, D)) * 0.1
                t = rng.normal(size=(N, D)) * 0.1
                axes = [(np.arange(m) - 1) * s for m, s in zip(cs, stride[::-1])]
                cidx = np.stack(np.meshgrid(*axes, indexing="ij"), axis=-1)[..., ::-1].astype(np.float64)
                lin = np.stack([np.moveaxis(cidx @ A[n].T + t[n], -1, 0) for n in range(N)])
                ffd.data_(torch.tensor(lin, dtype=torch.float32))
                ffd.update()
                gidx = np.stack(np.meshgrid(*[np.arange(n) for n in shape], indexing="ij"), axis=-1)[..., ::-1].astype(np.float64)
                want = np.stack([np.moveaxis(gidx @ A[n].T + t[n], -1, 0) for n in range(N)])
                ctx.close("ffd_reproduces_linear_coefficients", ffd.u, want, 2e-5 * (1 + np.abs(lin).max()), key=f"ffd/linear/transpose={transpose}", **info)
                ctx.true("ffd_u_covers_image_grid", tuple(ffd.u.shape) == (N, D) + shape, key="ffd/shape", got=list(ffd.u.shape), **info)
    # ---- control point grid object: control point j sits at the world position of image index (j - 1) * stride
    with ctx.guard("cubic_bspline_control_point_grid", **desc):
        from deepali.core.bspline import cubic_bspline_control_point_grid
        from .. import gen

        ctx.bucket("control_point_grid")
        gp = gen.rand_grid_params(rng, D, max_size=8, min_size=2, big_offset=False)
        gp["size"] = list(shape[::-1])
        if all(n >= 2 for n in shape):
            g = gen.make_grid(gp)
            cg = cubic_bspline_control_point_grid(g, stride)
            ctx.true("control_point_grid_size", tuple(cg.shape) == cs, key="ctrl_grid/size", got=list(cg.shape), want=list(cs), **desc)
            ref = gen.ref_of_grid(g)
            j = np.stack([rng.integers(0, m, size=6) for m in cs[::-1]], axis=-1).astype(np.float64)  # (x, ...) control indices
            want = ref.points((j - 1) * np.asarray(stride, dtype=np.float64), "grid", "world")
            got = cg.index_to_world(torch.tensor(j, dtype=torch.float64))
            ctx.close("control_point_world_positions", got, want, 1e-4 * (1 + np.abs(want).max()), key="ctrl_grid/positions", grid=gp, **desc)
    # ---- subdivision leaves the function unchanged on its domain
    if all(n >= 2 for n in shape) and max(shape) <= 16:
        with ctx.guard("subdivide_cubic_bspline", **desc):
            ctx.bucket("subdivide")
            dims = sorted(rng.choice(D, size=int(rng.integers(1, D + 1)), replace=False).tolist())
            sub = subdivide_cubic_bspline(ct, dims=dims)
            want_shape = tuple(2 * m - 1 if (D - 1 - a) in dims else m for a, m in enumerate(cs))
            ok = ctx.true("subdivided_shape", tuple(sub.shape[2:]) == want_shape, key="subdivide/shape", got=list(sub.shape), want=list(want_shape), dims=dims, **desc)
            if ok:
                # drop the first refined coefficient along subdivided axes: refined control point j then sits at
                # lattice coordinate (j - 1) / 2 of the original lattice
                sl = tuple(slice(1, None) if (D - 1 - a) in dims else slice(None) for a in range(D))
                fine = sub[(slice(None), slice(None)) + sl]
                fshape = tuple(2 * n - 1 if (D - 1 - a) in dims else n for a, n in enumerate(shape))
                need = tuple(ctrl_size(n, s) for n, s in zip(fshape, stride[::-1]))
                ctx.true("refined_grid_has_enough_coefficients", all(f >= m for f, m in zip(fine.shape[2:], need)), key="subdivide/shape", got=list(fine.shape[2:]), need=list(need), **desc)
                out = evaluate_cubic_bspline(fine.contiguous(), stride=stride, shape=fshape)
                ostride = tuple(2 * s if d in dims else s for d, s in enumerate(stride))
                ref = S.evaluate(coef, fshape, ostride)
                ctx.close("subdivision_preserves_function", out, ref, 1e-11 * (1 + np.abs(ref).max()), key="subdivide/function", dims=dims, **desc)
        with ctx.guard("FreeFormDeformation.grid_", **desc):
            ctx.bucket("ffd_grid_")
            grid = Grid(shape=shape, align_corners=True)
            ffd = FreeFormDeformation(grid, groups=N, params=False, stride=stride)
            p = rng.normal(size=(N, D) + cs) * 0.05
            ffd.data_(torch.tensor(p, dtype=torch.float32))
            ffd.update()
            u0 = ffd.u.double().numpy()
            cur_shape, cur_stride_rel = shape, stride
            # refinement that returns a new transform: the copy is the same function on the finer grid and the
            # original (optimisable parameters or fixed tensor) still represents the function it did
            for held in ("parameter", "buffer"):
                src = FreeFormDeformation(grid, groups=N, params=(held == "parameter"), stride=stride)
                src.data_(torch.tensor(p, dtype=torch.float32))
                src.update()
                dims = sorted(rng.choice(D, size=int(rng.integers(1, D + 1)), replace=False).tolist())
                new_size = tuple(2 * n - 1 if d in dims else n for d, n in enumerate(shape[::-1]))
                if max(new_size) > 70:
                    continue
                fine = src.grid(grid.resize(new_size))
                fine.update()
                uf = fine.u.detach().double().numpy()
                ctx.bucket(f"ffd_grid_copy/{held}")
                if ctx.true("refined_ffd_copy_covers_grid", tuple(uf.shape) == (N, D) + tuple(new_size[::-1]), key="ffd_grid_/shape", got=list(uf.shape), held=held, **desc):
                    sl = tuple(slice(None, None, 2) if (D - 1 - a) in dims else slice(None) for a in range(D))
                    ctx.close("ffd_refined_copy_preserves_displacement", uf[(slice(None), slice(None)) + sl], u0, 5e-6 * (1 + np.abs(p).max()), key="ffd_grid_/function", dims=dims, held=held, **desc)
                ctx.true("ffd_refined_copy_leaves_original_grid", src.grid() == grid and tuple(src.data().shape[2:]) == cs, key="ffd_grid_/original", held=held, got=list(src.data().shape), **desc)
                src.update()
                ctx.close("ffd_original_unchanged_by_refined_copy", src.u.detach(), u0, 5e-6 * (1 + np.abs(p).max()), key="ffd_grid_/original", dims=dims, held=held, **desc)
            for rep in range(2):
                dims = sorted(rng.choice(D, size=int(rng.integers(1, D + 1)), replace=False).tolist())
                new_size = tuple(2 * n - 1 if d in dims else n for d, n in enumerate(cur_shape[::-1]))
                if max(new_size) > 70:
                    break
                g2 = ffd.grid().resize(new_size)
                ffd.grid_(g2)
                # read right after the refinement, before anything updates the transform: the dense field is the refined one
                first_read = ffd.tensor().detach().double().numpy()
                first_flow = ffd.flow().tensor().detach().double().numpy()
                ffd.update()
                u1 = ffd.u.double().numpy()
                ok_first = ctx.true("refined_ffd_first_read_has_new_shape", tuple(first_read.shape) == tuple(u1.shape) and tuple(first_flow.shape) == tuple(u1.shape), key="ffd_grid_/first_read", got=[list(first_read.shape), list(first_flow.shape)], want=list(u1.shape), rep=rep, **desc)
                if ok_first:
                    ctx.close("refined_ffd_first_read_equals_updated_field", first_read, u1, 1e-7 * (1 + np.abs(u1).max()), key="ffd_grid_/first_read", rep=rep, **desc)
                    ctx.close("refined_ffd_first_flow_equals_updated_field", first_flow, u1, 1e-7 * (1 + np.abs(u1).max()), key="ffd_grid_/first_read", rep=rep, **desc)
                new_shape = new_size[::-1]
                ok = ctx.true("refined_ffd_covers_grid", tuple(u1.shape) == (N, D) + tuple(new_shape), key="ffd_grid_/shape", got=list(u1.shape), **desc)
                if not ok:
                    break
                # the refined displacement field sampled at the coincident (even) positions equals the old one;
                # vectors are in cube units of the same cube (align_corners=True), hence unchanged
                sl = tuple(slice(None, None, 2) if (D - 1 - a) in dims else slice(None) for a in range(D))
                ctx.close("ffd_refinement_preserves_displacement", u1[(slice(None), slice(None)) + sl], u0, 5e-6 * (1 + np.abs(p).max()), key="ffd_grid_/function", rep=rep, dims=dims, **desc)
                # and in between it is the analytic spline of the original coefficients
                ostride = tuple(2 * s if d in dims else s for d, s in enumerate(cur_stride_rel))
                if rep == 0:
                    ref = S.evaluate(p, new_shape, ostride)
                    ctx.close("ffd_refinement_is_original_spline", u1, ref, 5e-6 * (1 + np.abs(p).max()), key="ffd_grid_/function", rep=rep, dims=dims, **desc)
                u0, cur_shape = u1, tuple(new_shape)
