r"""C20 — gradients reaching parameters and inputs are the true derivatives."""

from __future__ import annotations

import numpy as np

from .. import gen
from .. import xforms as X
from ..monitor.gradpath import GradPath, cast_monitor
from ..oracle import fields as F

PROPERTY = "C20"
RULE = (
    "Catalogue of differentiable operations: every transform class (forward, inverse, disp on own / resized / "
    "other-domain grid, points in world axes) w.r.t. its parameters; ImageTransformer and SampleImage w.r.t. "
    "parameters, image and coordinates; grid_sample / sample_image / warp_image; expv, compose_flows, compose_svfs, "
    "logv; evaluate_cubic_bspline (both algorithms), subdivide_cubic_bspline; spatial_derivatives (every mode), "
    "flow_derivatives, jacobian_det, divergence, curl; all image and flow losses. For each operation and random "
    "generic input (no sample on a grid line or on the clamping boundary) the output is scalarised with fixed random "
    "weights and the autograd directional derivative along 6 unit directions (alternately random and leaning "
    "towards the returned gradient) is compared with central differences at steps h and h/2. A torch function mode "
    "(monitor.gradpath.cast_monitor) observes whether a float32 tensor requiring grad is produced inside the "
    "operation: if not, float64 steps (h=1e-6, rtol 1e-5) are used, otherwise - the operation casts - float32 steps "
    "(h=5e-3, rtol 3e-2, tolerance floor 5 % of the gradient norm). The evaluation noise is measured per direction "
    "from the residual of the function against its own tangent at steps 1e-4 h; a direction whose two estimates "
    "disagree or whose noise is large lies within h of "
    "a kink and is inconclusive, never a violation. Also required: the "
    "output is attached to the graph, every parameter receives a gradient, all gradients finite. Non-trivial: "
    "every (operation, input) pair with a non-zero derivative; distinct = hash of operation name and case index."
)
ASSUMPTIONS = [
    "central differences of a smooth function with step h have relative truncation error O(h^2); inputs are random, hence generic (non-kink) with probability one; directions whose h and h/2 estimates disagree are discarded",
    "torch.autograd anomaly detection is enabled; rounding / detach of tensors that require grad inside deepali is recorded and attached to witnesses",
]
ANCHORS = [
    ("deepali.core.flow", "expv"),
    ("deepali.core.flow", "compose_flows"),
    ("deepali.core.flow", "compose_svfs"),
    ("deepali.core.flow", "logv"),
    ("deepali.core.flow", "jacobian_det"),
    ("deepali.core.image", "grid_sample"),
    ("deepali.core.image", "spatial_derivatives"),
    ("deepali.core.bspline", "evaluate_cubic_bspline"),
    ("deepali.core.bspline", "subdivide_cubic_bspline"),
    ("deepali.core.affine", "euler_rotation_matrix"),
    ("deepali.core._kornia", "quaternion_to_rotation_matrix"),
    ("deepali.core.grid", "Grid.apply_transform"),
    ("deepali.spatial.transformer", "ImageTransformer.forward"),
    ("deepali.spatial.transformer", "PointSetTransformer.forward"),
    ("deepali.modules.sample", "SampleImage.forward"),
    ("deepali.spatial.composite", "CompositeTransform.disp"),
    ("deepali.spatial.base", "SpatialTransform.disp"),
    ("deepali.spatial.base", "SpatialTransform.points"),
    ("deepali.losses.pointset", "ClosestPointDistance.forward"),
    ("deepali.spatial.parametric", "ParametricTransform.data_"),
]
N_REPS = {"quick": 2, "thorough": 100}
BUDGET = {"quick": 600, "thorough": 5400}


def catalogue():
    names = [f"transform/{n}/{v}" for n in X.ALL for v in ("forward", "forward_after_data_", "forward_after_no_grad_call", "forward_after_backward", "forward_in_eval_mode", "inverse", "inverse_linked_views", "disp", "disp_resized", "disp_other", "points_world", "warp_image", "warp_other_grids", "pointset_transformer")]
    names += [f"fn/{n}" for n in FUNCS] + [f"loss/{n}" for n in LOSSES]
    return names


FUNCS = [
    "grid_sample/data", "grid_sample/grid", "grid_sample/padding_value", "sample_image/coords", "warp_image/flow", "SampleImage/image", "SampleImage/coords", "expv", "expv/steps0", "expv/align_corners_false",
    "compose_flows/u", "compose_flows/v", "compose_svfs", "logv", "evaluate_cubic_bspline", "evaluate_cubic_bspline/transpose", "evaluate_cubic_bspline/derivative", "subdivide_cubic_bspline",
    "spatial_derivatives/central", "spatial_derivatives/forward_central_backward", "spatial_derivatives/sobel", "spatial_derivatives/gaussian", "spatial_derivatives/bspline", "flow_derivatives/order2",
    "jacobian_det", "jacobian_det/3d", "divergence", "curl", "lie_bracket", "affine_flow", "euler_rotation_matrix", "euler_rotation_matrix/generic", "quaternion_to_rotation_matrix",
    "angle_axis_to_rotation_matrix", "homogeneous_matmul", "normalize_image", "downsample", "upsample", "conv", "grid_resize",
]
LOSSES = [
    "mse_loss", "ssd_loss", "mae_loss", "l1_loss", "huber_loss", "smooth_l1_loss", "mse_loss/mask", "ncc_loss", "lcc_loss", "wlcc_loss", "lcc_loss/mask", "mi_loss", "nmi_loss", "dice_loss", "tversky_loss",
    "closest_point_distance", "landmark_point_distance", "grad_loss", "bending_loss", "curvature_loss", "diffusion_loss", "divergence_loss", "elasticity_loss", "total_variation_loss", "bspline_bending_loss", "inverse_consistency_loss", "bending_loss/bspline",
]


def plan(tier, seed):
    return [["op", name, r] for name in catalogue() for r in range(N_REPS[tier])]


def mandatory(tier):
    return ["conclusive_directions", "float64_ops", "float32_ops", "steps/f64", "steps/f32", "second_step"] + [f"family/{f}" for f in ("transform", "fn", "loss")]


# ------------------------------------------------------------------------------------------------
def gradcheck(ctx, name, params, evaluate, info, n_dirs=6, f32=False, key_suffix=""):
    r"""Compare autograd directional derivatives of a scalarised output with central differences.

    ``params``: leaf tensors (requires_grad) that ``evaluate()`` depends on and that may be perturbed in place.
    """
    import torch

    rng = ctx.rng("gradcheck")
    cm = cast_monitor()
    with GradPath() as gp, cm:
        out = evaluate()
    if isinstance(out, (tuple, list)):
        out = torch.cat([o.reshape(-1) for o in out])
    elif isinstance(out, dict):
        out = torch.cat([o.reshape(-1) for o in out.values()])
    out_f32 = out.dtype == torch.float32 or f32
    ctx.bucket("float32_ops" if out_f32 else "float64_ops")
    w = torch.tensor(rng.normal(size=tuple(out.shape)), dtype=out.dtype)
    w = w / (w.norm() + 1e-12)

    def scalar():
        o = evaluate()
        if isinstance(o, (tuple, list)):
            o = torch.cat([q.reshape(-1) for q in o])
        elif isinstance(o, dict):
            o = torch.cat([q.reshape(-1) for q in o.values()])
        return (o * w).sum()

    s = (out * w).sum()
    ok = ctx.true("output_requires_grad", bool(s.requires_grad), key=f"grad/{name}/no_graph{key_suffix}", sites=gp.sites(), **info)
    if not ok:
        return
    grads = torch.autograd.grad(s, params, allow_unused=True)
    for i, g in enumerate(grads):
        if not ctx.true("gradient_exists", g is not None, key=f"grad/{name}/missing{key_suffix}", param=i, sites=gp.sites(), **info):
            return
        if not ctx.true("gradient_finite", bool(torch.isfinite(g).all()), key=f"grad/{name}/nonfinite{key_suffix}", param=i, **info):
            return
    # float64 steps when the whole differentiable path runs in float64; float32 steps when the operation returns
    # float32 or the cast monitor saw a float32 tensor requiring grad inside it (the quantifier allows "float32 with
    # matching step sizes where it casts"). Decided by observation of the running code, not by the noise of the result.
    casts = out_f32 or cm.float32_grad_tensors > 0
    if casts and not out_f32:
        ctx.count(f"float32_inside_float64_op/{name}")
    # (float32: the smaller step is used when the measured evaluation noise allows it - fewer kinks inside the step)
    ladder = [(1e-3, 3e-2, 1e-4, "f32"), (5e-3, 3e-2, 1e-4, "f32")] if casts else [(1e-6, 1e-5, 1e-9, "f64")]
    gnorm = float(sum((g.double() ** 2).sum() for g in grads) ** 0.5)
    scale = float(sum((p.detach().double() ** 2).sum() for p in params) ** 0.5) / max(1.0, float(sum(p.numel() for p in params)) ** 0.5) + 1e-2
    conclusive = 0
    nonzero = False
    for k in range(n_dirs * 2):
        if conclusive >= n_dirs:
            break
        ds = [torch.tensor(rng.normal(size=tuple(p.shape)), dtype=p.dtype) for p in params]
        nrm = float(sum((d.double() ** 2).sum() for d in ds) ** 0.5) + 1e-30
        ds = [d / nrm for d in ds]
        if k % 2 and gnorm > 0:  # every other direction leans towards the returned gradient: better signal to noise
            ds = [d + g.to(d.dtype) / gnorm for d, g in zip(ds, grads)]
            nrm = float(sum((d.double() ** 2).sum() for d in ds) ** 0.5) + 1e-30
            ds = [d / nrm for d in ds]
        dd = float(sum((g.double() * d.double()).sum() for g, d in zip(grads, ds)))

        def shifted(step):
            with torch.no_grad():
                for p, d in zip(params, ds):
                    p.add_(d * step)
                a = float(scalar())
                for p, d in zip(params, ds):
                    p.sub_(d * step)
            return a

        def fd(step):
            return (shifted(step) - shifted(-step)) / (2 * step)

        s0 = shifted(0.0)
        decided = False
        rejected = None
        for h, rtol, atol, tag in ladder:
            hh = h * max(scale, 1.0) if tag == "f32" else h
            f1, f2 = fd(hh), fd(hh / 2)
            # float32 steps cross interpolation kinks: their error scales with the gradient norm, not with the
            # (possibly tiny) derivative along a random direction; the gradient-aligned directions carry the signal
            ref = max(abs(f1), abs(f2), abs(dd), (0.05 if tag == "f32" else 1e-3) * gnorm, 1e-12)
            # measured evaluation noise: residual of the function against its own tangent at steps far below h
            sigma = max(abs(shifted(t * hh) - s0 - t * hh * f2) for t in (1e-4, -2e-4, 3e-4))
            # plus the rounding quantum of the scalar itself (tiny steps may not change a float32 value at all)
            noise = 2 * sigma / hh + (1.2e-7 if tag == "f32" else 2.3e-16) * abs(s0) / hh
            if tag == "f32":
                # float32 intermediates larger than the result (entropies, sums) quantise the differences: the scatter
                # of estimates at neighbouring step sizes measures it directly
                near = [f1, fd(0.83 * hh), fd(1.21 * hh)]
                noise += max(near) - min(near)
            if noise > 0.3 * (rtol * ref + atol):
                rejected = dict(steps=tag, h=hh, noise=noise, fd_h=f1, fd_h2=f2)
                continue  # too noisy at this step size: try the next larger one of the same precision class, if any
            if abs(f1 - f2) > rtol * ref + atol:
                rejected = dict(steps=tag, h=hh, noise=noise, fd_h=f1, fd_h2=f2)
                break  # the function is not smooth within h of this point along this direction (kink): inconclusive
            decided = True
            conclusive += 1
            ctx.bucket("conclusive_directions")
            ctx.bucket(f"steps/{tag}")
            if abs(f2) > 1e-6 * ref or abs(dd) > 1e-6 * ref:
                nonzero = True
            ctx.close("directional_derivative_equals_finite_difference", dd, f2, rtol * ref + atol + 3 * abs(f1 - f2) + noise, key=f"grad/{name}/mismatch{key_suffix}", fd_h=f1, fd_h2=f2, autograd=dd, steps=tag, noise=noise, rejected=rejected, gnorm=gnorm, direction="aligned" if k % 2 else "random", sites=gp.sites(), **info)
            break
        if not decided:
            ctx.count("inconclusive_directions")
    if conclusive < min(n_dirs, max(3, n_dirs // 2)):
        ctx.count("inconclusive_cases")
        ctx.count(f"inconclusive_case/{name}")
    if nonzero:
        ctx.nontriv(name, info)


# ------------------------------------------------------------------------------------------------
def run_item(ctx, item):
    import torch

    _, name, rep = item
    fam = name.split("/")[0]
    ctx.bucket(f"family/{fam}")
    info = dict(op=name, rep=rep)
    torch.autograd.set_detect_anomaly(True)
    with ctx.guard(name, key=f"exc/{name}", **info):
        if fam == "transform":
            transform_op(ctx, name, rep, info)
        elif fam == "fn":
            func_op(ctx, name[3:], rep, info)
        else:
            loss_op(ctx, name[5:], rep, info)
    if rep == 0 and name in ("transform/AffineTransform/forward", "loss/lcc_loss"):
        ctx.sample({"op": name, "method": "6 random directions, central differences at h and h/2"})


def t64(a, grad=False):
    import torch

    t = torch.tensor(np.asarray(a), dtype=torch.float64)
    return t.requires_grad_(True) if grad else t


def transform_op(ctx, name, rep, info):
    import torch
    from deepali import spatial as S
    from deepali.core.grid import Axes

    _, cls, variant = name.split("/")
    rng = ctx.rng()
    D = 3 if cls in X.ONLY_3D or rep % 2 else 2
    need_ac = "FreeForm" in cls
    gp = gen.rand_grid_params(rng, D, max_size=9 if D == 2 else 6, min_size=6 if D == 2 else 5, big_offset=False, align_corners=True if need_ac else None)
    g = gen.make_grid(gp)
    groups = 2 if rep % 4 == 3 else 1
    info = dict(info, D=D, groups=groups)
    t, _ = X.make(rng, cls, g, groups=groups, kind="parameter", amplitude=0.7, dtype=torch.float64)
    params = [p for p in t.parameters() if p.requires_grad]
    if cls in X.NONRIGID:  # generic values: nothing vanishes on the boundary, no sample lands on a grid line
        with torch.no_grad():
            for p in params:
                unit = 2.0 / float(min(g.size()))
                p.add_(torch.tensor(unit * (rng.uniform(0.15, 0.3) + 0.05 * rng.normal(size=tuple(p.shape))), dtype=p.dtype))
        t.update()
    x = t64(rng.uniform(-0.7, 0.7, size=(groups, 7, D)))
    if variant == "forward":
        ev = lambda: t(x)  # noqa: E731
    elif variant == "forward_after_no_grad_call":
        # validation pass first (no graph), then the training evaluation: the graph must be built now
        t.clear_buffers()  # as after construction or data_(): nothing is cached when the validation pass runs
        with torch.no_grad():
            t(x)
            if hasattr(t, "disp"):
                t.disp()
        ev = lambda: t(x)  # noqa: E731
    elif variant == "forward_after_backward":
        # an earlier training evaluation was back-propagated (its graph is freed); the parameters did not change since
        t(x).square().sum().backward()
        for p in params:
            p.grad = None
        ev = lambda: t(x)  # noqa: E731
    elif variant == "forward_in_eval_mode":
        # eval() switches layers such as dropout / batch norm; a transformation stays differentiable in either mode
        t.eval()
        if not ctx.true("eval_mode_is_set", not t.training and all(not m.training for m in t.modules()), key=f"grad/{name}/mode", **info):
            return
        ev = lambda: t(x)  # noqa: E731
    elif variant == "forward_after_data_":
        # setters replace the parameter object (data_, and through it offset_/angles_/... and grid_): the new one
        # must still be optimisable and reach the output
        n_before = len(params)
        for mod in t.modules():
            if hasattr(mod, "data_") and isinstance(getattr(mod, "params", None), torch.nn.Parameter):
                mod.data_(mod.params.detach().clone() * 0.9)
        params = [p for p in t.parameters() if p.requires_grad]
        if not ctx.true("parameters_still_optimisable_after_data_", len(params) == n_before and n_before > 0, key=f"grad/{name}/frozen", before=n_before, after=len(params), **info):
            return
        ev = lambda: t(x)  # noqa: E731
    elif variant == "inverse":
        if cls not in X.INVERTIBLE:
            ctx.count("not_applicable")
            return
        inv = t.inverse(link=bool(rep % 2), update_buffers=False)
        ev = lambda: inv(x)  # noqa: E731
    elif variant == "inverse_linked_views":
        if cls not in X.INVERTIBLE:
            ctx.count("not_applicable")
            return
        # a linked inverse with freshly updated buffers, read through tensor() / disp() / forward() (no call hook):
        # its buffers mirror the forward parameters and must stay attached to them
        def ev():
            t.update()  # the forward transform is current (as after its own evaluation in a training step)
            inv = t.inverse(link=True, update_buffers=True)
            return (inv.tensor(), inv.forward(x)) if inv.linear else (inv.disp(), inv.forward(x))
    elif variant == "disp":
        ev = lambda: t.update().disp()  # noqa: E731
    elif variant == "disp_resized":
        g2 = g.resize(tuple(int(n) + 2 for n in g.size()))
        ev = lambda: t.update().disp(g2)  # noqa: E731
    elif variant == "disp_other":
        ref = gen.ref_of_grid(g)
        p2 = gen.rand_grid_params(rng, D, max_size=7 if D == 2 else 5, min_size=4, big_offset=False, route="center")
        ext = ref.s * ref.n
        p2["center"] = gen.f32(ref.c + rng.normal(size=D) * 0.05 * ext).tolist()
        p2["spacing"] = gen.f32(ext * rng.uniform(0.5, 0.7, size=D) / np.asarray(p2["size"], dtype=float)).tolist()
        g2 = gen.make_grid(p2)
        ev = lambda: t.update().disp(g2)  # noqa: E731
        info = dict(info, other_grid=p2)
    elif variant == "points_world":
        ref = gen.ref_of_grid(g)
        W = t64(np.stack([ref.points(x[i].numpy(), "cube_corners" if g.align_corners() else "cube", "world") for i in range(groups)]))
        ev = lambda: t.update().points(W, axes=Axes.WORLD)  # noqa: E731
    elif variant == "warp_image":
        img = t64(rng.uniform(0, 1, size=(groups, 2) + tuple(g.shape)))
        for _ in range(D):  # smooth image: gradients w.r.t. parameters are informative
            img = (img + img.roll(1, -1) + img.roll(-1, -1)) / 3
        warp = S.ImageTransformer(t).double()
        ev = lambda: warp(img)  # noqa: E731
    elif variant in ("warp_other_grids", "pointset_transformer"):
        ref = gen.ref_of_grid(g)
        ext = ref.s * ref.n
        grids = []
        for _ in range(2):  # target and source grids inside the transform domain, own orientation and spacing
            p2 = gen.rand_grid_params(rng, D, max_size=7 if D == 2 else 5, min_size=4, big_offset=False, route="center")
            p2["center"] = gen.f32(ref.c + rng.normal(size=D) * 0.04 * ext).tolist()
            p2["spacing"] = gen.f32(ext * rng.uniform(0.5, 0.7, size=D) / np.asarray(p2["size"], dtype=float)).tolist()
            grids.append(gen.make_grid(p2))
        tgt, src = grids
        if variant == "warp_other_grids":
            img = smooth_img(rng, (groups, 2) + tuple(src.shape))
            warp = S.ImageTransformer(t, target=tgt, source=src).double()
            ev = lambda: warp(img)  # noqa: E731
        else:
            pst = S.PointSetTransformer(t, grid=tgt, axes=Axes.CUBE, to_grid=src, to_axes=Axes.WORLD).double()
            ev = lambda: pst(x)  # noqa: E731
    else:
        raise ValueError(variant)
    sub = S.SequentialTransform(t) if variant == "disp_other" and rep % 2 else None
    if sub is not None:  # composite route: CompositeTransform.disp maps points between domains
        ev = lambda: sub.update().disp(g2)  # noqa: E731
        name = name + "/composite"
    gradcheck(ctx, name, params, ev, info)
    # second optimisation step: parameters changed in place (as an optimiser does), buffers must be recomputed
    # from them and the new graph must be differentiable again
    with torch.no_grad():
        for p in params:
            p.add_(torch.tensor(rng.normal(size=tuple(p.shape)) * 0.02 * (float(p.abs().max()) + 0.05), dtype=p.dtype))
    ctx.bucket("second_step")
    gradcheck(ctx, name, params, ev, dict(info, step="second"), n_dirs=2, key_suffix="/second_step")


def generic_field(rng, shape, align_corners, amplitude):
    r"""Band-limited field plus a random offset and white noise: no sample maps exactly onto a grid line or the boundary."""
    f = F.smooth_field(rng, shape, align_corners, amplitude)
    D = len(shape)
    for c in range(D):
        n_c = shape[::-1][c]
        unit = 2.0 / (n_c - 1 if align_corners else n_c)
        f[c] = f[c] + unit * (rng.uniform(0.15, 0.45) * rng.choice([-1, 1]) + 0.05 * rng.normal(size=tuple(shape)))
    return f


def smooth_img(rng, shape, grad=False, dtype=None):
    import torch

    x = rng.uniform(0.1, 1.0, size=shape)
    for ax in range(2, len(shape)):
        x = (x + np.roll(x, 1, axis=ax) + np.roll(x, -1, axis=ax)) / 3
    x = x + 0.05 * rng.uniform(size=shape)
    t = torch.tensor(x, dtype=dtype or torch.float64)
    return t.requires_grad_(True) if grad else t


def func_op(ctx, name, rep, info):
    import torch
    from deepali.core import functional as U
    from deepali.core.grid import Grid
    from deepali.modules.sample import SampleImage

    rng = ctx.rng()
    D = 3 if (rep % 3 == 2 or name.endswith("3d") or name == "curl") else 2
    shape = (7, 8) if D == 2 else (5, 6, 7)
    N, C = 2, 2
    grid = Grid(shape=shape)
    img = smooth_img(rng, (N, C) + shape, grad=True)
    coords = (grid.coords().double().unsqueeze(0).repeat(N, *([1] * (D + 1))) * 0.8 + t64(rng.normal(size=(N,) + shape + (D,)) * 0.03)).requires_grad_(True)
    flow = t64(np.stack([generic_field(rng, shape, True, 0.8) for _ in range(N)]), grad=True)
    flow2 = t64(np.stack([generic_field(rng, shape, True, 0.8) for _ in range(N)]), grad=True)
    pts = t64(rng.uniform(-0.8, 0.8, size=(N, 9, D)), grad=True)
    if name == "grid_sample/data":
        return gradcheck(ctx, "fn/" + name, [img], lambda: U.grid_sample(img, coords.detach()), info)
    if name == "grid_sample/grid":
        return gradcheck(ctx, "fn/" + name, [coords], lambda: U.grid_sample(img.detach(), coords), info)
    if name == "grid_sample/padding_value":
        return gradcheck(ctx, "fn/" + name, [img, coords], lambda: U.grid_sample(img, coords * 1.3, padding=0.7), info)
    if name == "sample_image/coords":
        return gradcheck(ctx, "fn/" + name, [pts, img], lambda: U.sample_image(img, pts), info)
    if name == "warp_image/flow":
        fl = t64(rng.normal(size=(N,) + shape + (D,)) * 0.03, grad=True)
        return gradcheck(ctx, "fn/" + name, [fl, img], lambda: U.warp_image(img, grid.coords().double().unsqueeze(0), flow=fl), info)
    if name.startswith("SampleImage"):
        tgt = Grid(shape=tuple(n - 1 for n in shape), spacing=tuple([1.1] * D), center=tuple([0.2] * D))
        mod = SampleImage(tgt, grid).double()
        p = (tgt.coords().double().unsqueeze(0) * 0.9 + t64(rng.normal(size=(1,) + tuple(tgt.shape) + (D,)) * 0.02)).requires_grad_(True)
        if name.endswith("image"):
            return gradcheck(ctx, "fn/" + name, [img], lambda: mod(p.detach(), img), info)
        return gradcheck(ctx, "fn/" + name, [p], lambda: mod(p, img.detach()), info)
    if name == "expv":
        return gradcheck(ctx, "fn/" + name, [flow], lambda: U.expv(flow, steps=4), info)
    if name == "expv/steps0":
        return gradcheck(ctx, "fn/" + name, [flow], lambda: U.expv(flow, steps=0, scale=0.5), info)
    if name == "expv/align_corners_false":
        return gradcheck(ctx, "fn/" + name, [flow], lambda: U.expv(flow, steps=3, align_corners=False, inverse=True), info)
    if name == "compose_flows/u":
        return gradcheck(ctx, "fn/" + name, [flow], lambda: U.compose_flows(flow, flow2.detach()), info)
    if name == "compose_flows/v":
        return gradcheck(ctx, "fn/" + name, [flow2], lambda: U.compose_flows(flow.detach(), flow2), info)
    if name == "compose_svfs":
        nb = int(rng.integers(1, 5))
        return gradcheck(ctx, "fn/" + name, [flow, flow2], lambda: U.compose_svfs(flow, flow2, bch_terms=nb), dict(info, bch_terms=nb))
    if name == "logv":
        return gradcheck(ctx, "fn/" + name, [flow], lambda: U.logv(flow, num_iters=2, exp_steps=3), info)
    coef = t64(rng.normal(size=(N, D) + tuple(n + 3 for n in (4,) * D)) * 0.1, grad=True)
    if name == "evaluate_cubic_bspline":
        return gradcheck(ctx, "fn/" + name, [coef], lambda: U.evaluate_cubic_bspline(coef, stride=2), info)
    if name == "evaluate_cubic_bspline/transpose":
        c32 = coef.detach().float().requires_grad_(True)
        return gradcheck(ctx, "fn/" + name, [c32], lambda: U.evaluate_cubic_bspline(c32, stride=2, transpose=True), info)
    if name == "evaluate_cubic_bspline/derivative":
        return gradcheck(ctx, "fn/" + name, [coef], lambda: U.evaluate_cubic_bspline(coef, stride=2, derivative=1), info)
    if name == "subdivide_cubic_bspline":
        return gradcheck(ctx, "fn/" + name, [coef], lambda: U.subdivide_cubic_bspline(coef), info)
    if name.startswith("spatial_derivatives"):
        mode = name.split("/")[1]
        return gradcheck(ctx, "fn/" + name, [img], lambda: U.spatial_derivatives(img, mode=mode, order=1, spacing=0.5), info)
    if name == "flow_derivatives/order2":
        return gradcheck(ctx, "fn/" + name, [flow], lambda: U.flow_derivatives(flow, order=2, mode="sobel"), info)
    if name.startswith("jacobian_det"):
        return gradcheck(ctx, "fn/" + name, [flow], lambda: U.jacobian_det(flow), info)
    if name == "divergence":
        return gradcheck(ctx, "fn/" + name, [flow], lambda: U.divergence(flow, mode="central"), info)
    if name == "curl":
        return gradcheck(ctx, "fn/" + name, [flow], lambda: U.curl(flow), info)
    if name == "lie_bracket":
        return gradcheck(ctx, "fn/" + name, [flow, flow2], lambda: U.lie_bracket(flow, flow2), info)
    if name == "affine_flow":
        m = t64(np.tile(np.eye(D, D + 1), (N, 1, 1)) + rng.normal(size=(N, D, D + 1)) * 0.1, grad=True)
        return gradcheck(ctx, "fn/" + name, [m], lambda: U.affine_flow(m, grid.coords().double().unsqueeze(0)), info)
    if name.startswith("euler_rotation_matrix"):
        a = t64(rng.uniform(-1, 1, size=(N, 3)), grad=True)
        order = "ZXZ" if name == "euler_rotation_matrix" else str(rng.choice(["YXY", "XYX", "YZX", "ZYZ"]))
        return gradcheck(ctx, "fn/" + name, [a], lambda: U.euler_rotation_matrix(a, order=order), info)
    if name == "quaternion_to_rotation_matrix":
        q = t64(rng.normal(size=(N, 4)), grad=True)
        return gradcheck(ctx, "fn/" + name, [q], lambda: U.quaternion_to_rotation_matrix(U.normalize_quaternion(q)), info)
    if name == "angle_axis_to_rotation_matrix":
        a = t64(rng.normal(size=(N, 3)) * 0.7, grad=True)
        return gradcheck(ctx, "fn/" + name, [a], lambda: U.angle_axis_to_rotation_matrix(a), info)
    if name == "homogeneous_matmul":
        a = t64(rng.normal(size=(N, D, D + 1)), grad=True)
        b = t64(rng.normal(size=(N, D, 1)), grad=True)
        c = t64(rng.normal(size=(N, D, D)), grad=True)
        return gradcheck(ctx, "fn/" + name, [a, b, c], lambda: U.homogeneous_matmul(a, b, c), info)
    if name == "normalize_image":
        return gradcheck(ctx, "fn/" + name, [img], lambda: U.normalize_image(img, mode="zscore"), info)
    if name == "downsample":
        return gradcheck(ctx, "fn/" + name, [img], lambda: U.downsample(img, 1), info)
    if name == "upsample":
        return gradcheck(ctx, "fn/" + name, [img], lambda: U.upsample(img, 1, sigma=0.7), info)
    if name == "conv":
        k = t64([0.25, 0.5, 0.25], grad=True)
        return gradcheck(ctx, "fn/" + name, [img, k], lambda: U.conv(img, k, padding="replicate"), info)
    if name == "grid_resize":
        return gradcheck(ctx, "fn/" + name, [img], lambda: U.grid_resize(img, tuple(n + 3 for n in shape[::-1])), info)
    raise ValueError(name)


def loss_op(ctx, name, rep, info):
    import torch
    from deepali.core.grid import Grid
    from deepali.losses import functional as LF

    rng = ctx.rng()
    D = 3 if rep % 3 == 2 else 2
    shape = (9, 10) if D == 2 else (6, 7, 8)
    N, C = 2, 2
    f32_losses = {"ncc_loss", "lcc_loss", "wlcc_loss", "lcc_loss/mask", "mi_loss", "nmi_loss", "dice_loss", "tversky_loss"}
    dt = torch.float32 if name in f32_losses else torch.float64
    x = smooth_img(rng, (N, C) + shape, grad=True, dtype=dt)
    y = smooth_img(rng, (N, C) + shape, grad=True, dtype=dt)
    mask = torch.tensor((rng.uniform(size=(N, 1) + shape) < 0.7).astype(np.float64), dtype=dt)
    u = t64(np.stack([generic_field(rng, shape, True, 1.5) * 3 for _ in range(N)]), grad=True)
    f32 = name in f32_losses
    L = "loss/" + name
    if name in ("mse_loss", "ssd_loss", "mae_loss", "l1_loss"):
        return gradcheck(ctx, L, [x, y], lambda: getattr(LF, name)(x, y), info)
    if name in ("huber_loss", "smooth_l1_loss"):
        kw = {"delta": 0.05} if name == "huber_loss" else {"beta": 0.05}
        return gradcheck(ctx, L, [x, y], lambda: getattr(LF, name)(x, y, **kw), info)
    if name == "mse_loss/mask":
        return gradcheck(ctx, L, [x, y], lambda: LF.mse_loss(x, y, mask=mask, norm=2.0), info)
    if name == "ncc_loss":
        return gradcheck(ctx, L, [x, y], lambda: LF.ncc_loss(x, y), info, f32=True)
    if name in ("lcc_loss", "wlcc_loss"):
        return gradcheck(ctx, L, [x, y], lambda: getattr(LF, name)(x, y, kernel_size=3), info, f32=True)
    if name == "lcc_loss/mask":
        return gradcheck(ctx, L, [x, y], lambda: LF.lcc_loss(x, y, kernel_size=3, mask=mask), info, f32=True)
    if name in ("mi_loss", "nmi_loss"):
        x1, y1 = x[:, :1].detach().clone().requires_grad_(True), y[:, :1].detach().clone().requires_grad_(True)
        return gradcheck(ctx, L, [x1, y1], lambda: LF.mi_loss(x1, y1, num_bins=8, vmin=0.0, vmax=1.2, normalized=name == "nmi_loss"), info, f32=True)
    if name in ("dice_loss", "tversky_loss"):
        seg = torch.tensor((rng.uniform(size=(N, C) + shape) < 0.5).astype(np.float32))
        p = (x.detach() * 0.8 + 0.1).requires_grad_(True)
        fn = LF.dice_loss if name == "dice_loss" else (lambda a, b: LF.tversky_loss(a, b, alpha=0.3, beta=0.7))
        return gradcheck(ctx, L, [p], lambda: fn(p, seg), info, f32=True)
    if name in ("closest_point_distance", "landmark_point_distance"):
        from deepali.losses import pointset as PS

        K = 9 if name == "landmark_point_distance" else 13
        # generic input for a nearest-neighbour term: well separated points, each with one clearly closest partner
        # (away from the kinks where the assignment switches), plus far-away distractors
        base = np.stack([np.stack(np.meshgrid(*[np.linspace(-0.8, 0.8, 3)] * D, indexing="ij"), -1).reshape(-1, D)[:9] for _ in range(N)])
        xs = base + rng.uniform(-0.05, 0.05, size=base.shape)
        ys = xs[:, rng.permutation(9)] + rng.normal(size=base.shape) * 0.04
        if K > 9:
            ys = np.concatenate([ys, rng.uniform(2.5, 3.5, size=(N, K - 9, D)) * rng.choice([-1, 1], size=(N, K - 9, D))], axis=1)
        px = torch.tensor(xs, dtype=torch.float32, requires_grad=True)
        py = torch.tensor(ys, dtype=torch.float32, requires_grad=True)
        term = PS.ClosestPointDistance() if name == "closest_point_distance" else PS.LandmarkPointDistance()
        return gradcheck(ctx, L, [px, py], lambda: term(px, py), info, f32=True)
    if name == "grad_loss":
        return gradcheck(ctx, L, [u], lambda: LF.grad_loss(u, p=2, q=0.5, spacing=0.5), info)
    if name in ("bending_loss", "curvature_loss", "diffusion_loss", "divergence_loss", "total_variation_loss"):
        mode = [None, "central", "sobel", "forward"][rep % 4]
        return gradcheck(ctx, L, [u], lambda: getattr(LF, name)(u, mode=mode), dict(info, mode=str(mode)))
    if name == "elasticity_loss":
        return gradcheck(ctx, L, [u], lambda: LF.elasticity_loss(u, first_parameter=1.3, second_parameter=0.6), info)
    if name in ("bspline_bending_loss", "bending_loss/bspline"):
        coef = t64(rng.normal(size=(N, D) + tuple([6] * D)) * 0.1, grad=True)
        if name == "bspline_bending_loss":
            return gradcheck(ctx, L, [coef], lambda: LF.bspline_bending_loss(coef, stride=2), info)
        return gradcheck(ctx, L, [coef], lambda: LF.bending_loss(coef, mode="bspline", stride=2, reduction="sum"), info)
    if name == "inverse_consistency_loss":
        g = Grid(shape=shape, align_corners=bool(rep % 2))
        fw = t64(np.stack([generic_field(rng, shape, g.align_corners(), 0.8)]), grad=True)
        bw = t64(np.stack([generic_field(rng, shape, g.align_corners(), 0.8)]), grad=True)
        return gradcheck(ctx, L, [fw, bw], lambda: LF.inverse_consistency_loss(fw, bw, grid=g, units=["cube", "voxel", "world"][rep % 3], margin=1), info)
    raise ValueError(name)
