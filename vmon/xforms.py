r"""Factory of deepali spatial transforms with random parameters in their documented ranges (shared by C06, C07, C09, C15, C20)."""

from __future__ import annotations

from typing import Any, Dict, List, Optional, Tuple

import numpy as np

from .oracle.fields import smooth_field

LINEAR = ["Translation", "EulerRotation", "QuaternionRotation", "IsotropicScaling", "AnisotropicScaling", "Shearing", "HomogeneousTransform"]
LINEAR_COMPOSITE = ["RigidTransform", "RigidQuaternionTransform", "SimilarityTransform", "AffineTransform", "FullAffineTransform"]
NONRIGID = ["DisplacementFieldTransform", "StationaryVelocityFieldTransform", "FreeFormDeformation", "StationaryVelocityFreeFormDeformation"]
ALL = LINEAR + LINEAR_COMPOSITE + NONRIGID
ONLY_3D = {"QuaternionRotation", "RigidQuaternionTransform"}
INVERTIBLE = LINEAR + LINEAR_COMPOSITE + ["StationaryVelocityFieldTransform", "StationaryVelocityFreeFormDeformation"]
KINDS = ["parameter", "buffer", "callable"]
CHILDREN = {
    "RigidTransform": ["rotation", "translation"],
    "RigidQuaternionTransform": ["rotation", "translation"],
    "SimilarityTransform": ["scaling", "rotation", "translation"],
    "AffineTransform": ["scaling", "rotation", "translation"],
    "FullAffineTransform": ["scaling", "shearing", "rotation", "translation"],
}


class Box:
    r"""Mutable holder used by callable parameters (``lambda: box.value``)."""

    def __init__(self, value=None):
        self.value = value
        self.calls = 0

    def __call__(self, *args, **kwargs):
        self.calls += 1
        self.args = (args, kwargs)
        return self.value


def natural_values(rng: np.random.Generator, name: str, D: int, groups: int, grid, amplitude: float = 1.0, stride=None) -> np.ndarray:
    r"""Parameter values in the natural (un-squashed) domain of elementary transform ``name``."""
    a = amplitude
    if name == "Translation":
        return rng.uniform(-0.2, 0.2, size=(groups, D)) * a
    if name == "EulerRotation":
        return rng.uniform(-0.5, 0.5, size=(groups, 1 if D == 2 else 3)) * a
    if name == "QuaternionRotation":
        q = np.concatenate([np.ones((groups, 1)), rng.normal(size=(groups, 3)) * 0.25 * a], axis=1)
        return q / np.linalg.norm(q, axis=1, keepdims=True)
    if name == "IsotropicScaling":
        return np.exp(rng.uniform(-0.2, 0.2, size=(groups, 1)) * a)
    if name == "AnisotropicScaling":
        return np.exp(rng.uniform(-0.2, 0.2, size=(groups, D)) * a)
    if name == "Shearing":
        return rng.uniform(-0.3, 0.3, size=(groups, 1 if D == 2 else 3)) * a
    if name == "HomogeneousTransform":
        M = np.tile(np.eye(D, D + 1), (groups, 1, 1))
        return M + rng.normal(size=(groups, D, D + 1)) * 0.1 * a
    raise ValueError(name)


def to_raw(name: str, values: np.ndarray, squashed: bool) -> np.ndarray:
    r"""Raw parameter tensor for natural values (inverse of the documented re-parameterisation of optimisable parameters)."""
    if not squashed:
        return values
    if name == "EulerRotation":
        return np.arctanh(values / np.pi)
    if name in ("IsotropicScaling", "AnisotropicScaling"):
        return np.arctanh(np.log(values)) + 1
    if name == "Shearing":
        return np.arctanh(values * 4 / np.pi)
    return values


def nonrigid_shape(t) -> Tuple[int, ...]:
    return tuple(t.data_shape)


def nonrigid_values(rng, name, t, groups, amplitude=1.0) -> np.ndarray:
    r"""Smooth low-frequency coefficients (cube units of the transform grid), about ``amplitude`` samples large."""
    shape = tuple(t.data_shape)
    D = shape[0]
    sshape = shape[1:]
    grid = t.grid()
    n = np.array([float(k) for k in grid.size()])
    ac = grid.align_corners()
    out = []
    for _ in range(groups):
        f = smooth_field(rng, sshape, True, 1.0, modes=1)  # unit: one control sample
        # rescale so that the amplitude is measured in samples of the *image* grid of the transform
        for c in range(D):
            m = float(np.abs(f[c]).max()) + 1e-12
            unit = 2.0 / (n[c] - 1 if ac else n[c])
            f[c] = f[c] / m * amplitude * unit * rng.uniform(0.3, 1.0)
        out.append(f)
    return np.stack(out)


def make(rng, name: str, grid, groups: int = 1, kind: str = "parameter", amplitude: float = 1.0, dtype=None, **kwargs):
    r"""Create transform ``name`` on ``grid`` holding random parameters; returns (transform, info).

    ``info["boxes"]`` maps child name (or "") to the Box feeding a callable-parameter transform.
    """
    import torch
    from deepali import spatial as S

    D = grid.ndim
    cls = getattr(S, name)
    info: Dict[str, Any] = {"name": name, "groups": groups, "kind": kind, "boxes": {}, "values": {}}
    dt = dtype or torch.float32

    def elementary(ename, ecls, key, **kw):
        vals = natural_values(rng, ename, D, groups, grid, amplitude)
        info["values"][key] = vals
        if kind == "callable":
            box = Box(torch.tensor(vals, dtype=dt))
            info["boxes"][key] = box
            return box, None
        squashed = kind == "parameter"
        raw = torch.tensor(to_raw(ename, vals, squashed), dtype=dt)
        return (torch.nn.Parameter(raw) if squashed else raw), None

    if name in LINEAR:
        p, _ = elementary(name, cls, "")
        t = cls(grid, groups=groups, params=p, **kwargs)
    elif name in LINEAR_COMPOSITE:
        child_cls = {
            "rotation": "QuaternionRotation" if name == "RigidQuaternionTransform" else "EulerRotation",
            "translation": "Translation",
            "scaling": "IsotropicScaling" if name == "SimilarityTransform" else "AnisotropicScaling",
            "shearing": "Shearing",
        }
        kw = {}
        for key in CHILDREN[name]:
            p, _ = elementary(child_cls[key], None, key)
            kw[key] = p
        t = cls(grid, groups=groups, **kw)
    elif name in NONRIGID:
        extra = dict(kwargs)
        if name in ("FreeFormDeformation", "StationaryVelocityFreeFormDeformation"):
            extra.setdefault("stride", int(rng.integers(1, 4)))
        if name in ("StationaryVelocityFieldTransform", "StationaryVelocityFreeFormDeformation"):
            extra.setdefault("steps", 5)
        probe = cls(grid, groups=groups, params=False, **extra)
        vals = nonrigid_values(rng, name, probe, groups, amplitude)
        info["values"][""] = vals
        info["extra"] = {k: v for k, v in extra.items()}
        if kind == "callable":
            box = Box(torch.tensor(vals, dtype=dt))
            info["boxes"][""] = box
            t = cls(grid, groups=groups, params=box, **extra)
        elif kind == "parameter":
            t = cls(grid, groups=groups, params=torch.nn.Parameter(torch.tensor(vals, dtype=dt)), **extra)
        else:
            t = cls(grid, groups=groups, params=torch.tensor(vals, dtype=dt), **extra)
    else:
        raise ValueError(name)
    if dt == torch.float64:
        t = t.double()
    t.update()
    return t, info


def available(D: int) -> List[str]:
    return [n for n in ALL if D == 3 or n not in ONLY_3D]
