r"""pytest plugin: runs the repository's own tests with the function mutation monitor installed.

    pytest -p vmon.pytest_plugin   (PYTHONPATH must contain /verif and the repository's src directory)

Writes ``{"monitored_calls", "calls": {function: n}, "violations": [...]}`` to ``$VMON_PLUGIN_OUT`` at session end.
A contract firing here is read before anything is relaxed: either it is too strict or a defect the tests do not assert.
"""

from __future__ import annotations

import json
import os

_state = {"mon": None, "violations": [], "test": None}


def pytest_configure(config):
    from vmon.monitor.funcmon import FunctionMonitor

    def report(qual, changes, info):
        if len(_state["violations"]) < 200:
            _state["violations"].append({"function": qual, "changes": changes, "test": _state["test"], **info})

    _state["mon"] = FunctionMonitor(report).install()


def pytest_runtest_setup(item):
    _state["test"] = item.nodeid


def pytest_sessionfinish(session, exitstatus):
    mon = _state["mon"]
    if mon is None:
        return
    mon.uninstall()
    out = os.environ.get("VMON_PLUGIN_OUT")
    if out:
        with open(out, "w") as f:
            json.dump({"monitored_calls": sum(mon.calls.values()), "calls": mon.calls, "violations": _state["violations"]}, f)
