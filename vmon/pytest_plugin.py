r"""pytest plugin: runs the repository's own tests with the function mutation monitor installed.

    pytest -p vmon.pytest_plugin   (PYTHONPATH must contain /verif and the repository's src directory)

Writes ``{"monitored_calls", "calls": {function: n}, "violations": [...]}`` to ``$VMON_PLUGIN_OUT`` at session end.
A contract firing here is read before anything is relaxed: either it is too strict or a defect the tests do not assert.
"""

from __future__ import annotations

import json
import os

_state = {"mon": None, "violations": [], "test": None, "gridpost": None, "ctx": None}


def pytest_configure(config):
    from vmon.monitor.funcmon import FunctionMonitor

    def report(qual, changes, info):
        if len(_state["violations"]) < 200:
            _state["violations"].append({"function": qual, "changes": changes, "test": _state["test"], **info})

    _state["mon"] = FunctionMonitor(report).install()
    if os.environ.get("VMON_PLUGIN_GRIDPOST"):
        # the C03 postconditions on the Grid / Cube derivation methods, evaluated on whatever the tests call
        from vmon.core import Ctx
        from vmon.monitor.gridpost import GridPost

        _state["ctx"] = Ctx("C03", "pytest", 0)
        _state["gridpost"] = GridPost(lambda: _state["ctx"]).install()


def pytest_runtest_setup(item):
    _state["test"] = item.nodeid
    if _state["ctx"] is not None:
        _state["ctx"].item = ["pytest", item.nodeid]


def pytest_sessionfinish(session, exitstatus):
    mon = _state["mon"]
    if mon is None:
        return
    mon.uninstall()
    extra = {}
    if _state["gridpost"] is not None:
        _state["gridpost"].uninstall()
        d = _state["ctx"].dump()
        extra["gridpost"] = {"evaluations": d["evaluations"], "counters": d["counters"], "violations": d["violations"], "contracts": _state["gridpost"].counters()}
    out = os.environ.get("VMON_PLUGIN_OUT")
    if out:
        with open(out, "w") as f:
            json.dump({"monitored_calls": sum(mon.calls.values()), "calls": mon.calls, "violations": _state["violations"], **extra}, f, default=str)
