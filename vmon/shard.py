r"""Worker: runs the work items of one shard in a fresh process and writes a JSON result file."""

from __future__ import annotations

import faulthandler
import importlib
import json
import os
import sys
import time


def run_items(prop: str, tier: str, seed: int, items: list, deadline: float = float("inf")):
    from .core import Ctx, setup_runtime
    from .monitor.anchors import AnchorCoverage

    setup_runtime()
    mod = importlib.import_module(f"vmon.checks.{prop.lower()}")
    ctx = Ctx(prop, tier, seed)
    cov = AnchorCoverage(getattr(mod, "ANCHORS", []))
    cov.start()
    reach = None
    if os.environ.get("VMON_REACH_DIR"):  # tools/apireach.py: which library functions does this workload enter at all
        from .monitor.reach import ApiReach

        reach = ApiReach(os.environ.get("VMON_REPO_SRC", "/repo/src"))
        reach.start()
    setup = getattr(mod, "setup", None)
    if setup is not None:
        setup(ctx)
    skipped = 0
    try:
        for item in items:
            if time.monotonic() > deadline:
                skipped += 1
                continue
            ctx.item = item
            try:
                mod.run_item(ctx, item)
            except Exception as e:  # harness-level failure of the check itself  # noqa: BLE001
                import traceback

                ctx.inconclusive.append(
                    f"harness error in item {item}: {type(e).__name__}: {e} :: "
                    + " | ".join(traceback.format_exc().splitlines()[-6:])
                )
            ctx.items_run += 1
    finally:
        cov.stop()
        if reach is not None:
            reach.stop()
            with open(os.path.join(os.environ["VMON_REACH_DIR"], f"{prop}-{os.getpid()}.json"), "w") as f:
                json.dump(reach.dump(), f)
        teardown = getattr(mod, "teardown", None)
        if teardown is not None:
            teardown(ctx)
    if skipped:
        ctx.inconclusive.append(f"watchdog: {skipped} items not run before the shard deadline")
    out = ctx.dump()
    out["anchors"] = cov.dump()
    return out


def main(argv=None) -> int:
    argv = sys.argv[1:] if argv is None else argv
    prop, tier, seed, items_file, out_file, budget = argv
    faulthandler.enable()
    with open(items_file) as f:
        items = json.load(f)
    t0 = time.monotonic()
    out = run_items(prop, tier, int(seed), items, deadline=t0 + float(budget))
    out["wall_s"] = time.monotonic() - t0
    with open(out_file, "w") as f:
        json.dump(out, f)
    return 0


if __name__ == "__main__":
    sys.exit(main())
