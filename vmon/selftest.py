r"""Setup-time self-test: the framework imports, the working tree of deepali is the one imported,
the contract layer fires on a deliberately broken toy function, and the oracle agrees with itself."""

from __future__ import annotations

import sys


def main() -> int:
    from .core import Ctx, setup_runtime

    src = setup_runtime()
    import numpy as np

    from .monitor.contracts import Installed
    from .oracle.coords import AXES, RefGrid

    # oracle self-consistency: A->B->A is the identity for a rotated anisotropic grid
    g = RefGrid([5, 7], [0.5, 2.0], [[0, -1], [1, 0]], origin=[3.0, -4.0])
    x = np.array([[0.3, 1.7], [4.0, 6.0]])
    for a in AXES:
        for b in AXES:
            y = g.points(g.points(x, a, b), b, a)
            assert np.allclose(y, x, atol=1e-12), (a, b)
    assert np.allclose(g.points([[0, 0]], "grid", "world"), [[3.0, -4.0]])
    assert np.allclose(g.points([[-1, -1]], "cube_corners", "grid"), [[0, 0]])
    assert np.allclose(g.points([[1, 1]], "cube", "grid"), [[4.5, 6.5]])

    # contract layer fires
    class Toy:
        def f(self, x):
            return x + 1

    seen = []
    inst = Installed()
    inst.wrap(Toy, "f", post=lambda args, kw, res, exc, snap: seen.append(res))
    assert Toy().f(1) == 2 and seen == [2]
    inst.uninstall()
    assert Toy().f(1) == 2 and seen == [2]

    ctx = Ctx("SELF", "quick", 0)
    ctx.item = ["selftest"]
    assert ctx.close("a", [1.0], [1.0 + 1e-9], 1e-6)
    assert not ctx.close("b", [1.0], [1.1], 1e-6)
    assert len(ctx.violations) == 1
    print(f"vmon selftest ok (deepali from {src})")
    return 0


if __name__ == "__main__":
    sys.exit(main())
